package main

import (
	"fmt"
	"math/bits"
	"strings"
)

// Term is a hash-consed SMT term. w==0 means Bool, otherwise a bit-vector of width w.
type Op uint8

const (
	OConst Op = iota
	OVar
	ONot
	OAnd
	OOr
	OEq
	OUlt
	OUle
	OSlt
	OSle
	OIte
	OBvNot
	OBvNeg
	OBvAnd
	OBvOr
	OBvXor
	OBvAdd
	OBvSub
	OBvMul
	OBvUdiv
	OBvUrem
	OBvSdiv
	OBvSrem
	OBvShl
	OBvLshr
	OBvAshr
	OConcat
	OExtract // c = hi<<8|lo
	OZext
	OSext
)

var opName = map[Op]string{ONot: "not", OAnd: "and", OOr: "or", OEq: "=", OUlt: "bvult", OUle: "bvule", OSlt: "bvslt", OSle: "bvsle",
	OIte: "ite", OBvNot: "bvnot", OBvNeg: "bvneg", OBvAnd: "bvand", OBvOr: "bvor", OBvXor: "bvxor", OBvAdd: "bvadd", OBvSub: "bvsub",
	OBvMul: "bvmul", OBvUdiv: "bvudiv", OBvUrem: "bvurem", OBvSdiv: "bvsdiv", OBvSrem: "bvsrem", OBvShl: "bvshl", OBvLshr: "bvlshr",
	OBvAshr: "bvashr", OConcat: "concat"}

type Term struct {
	op      Op
	w       uint8
	c       uint64
	a, b, d *Term
	id      int
	name    string
	defGen  int // generation of the solver process this term was emitted to
	hi      uint64 // structural upper bound of the unsigned value (bit-vectors only)
}

type tkey struct {
	op      Op
	w       uint8
	c       uint64
	a, b, d int
	name    string
}

type TermTable struct {
	tab  map[tkey]*Term
	next int
}

var TT = &TermTable{tab: map[tkey]*Term{}}

func tid(t *Term) int {
	if t == nil {
		return -1
	}
	return t.id
}

func mk(op Op, w uint8, c uint64, a, b, d *Term, name string) *Term {
	k := tkey{op, w, c, tid(a), tid(b), tid(d), name}
	if t, ok := TT.tab[k]; ok {
		return t
	}
	t := &Term{op: op, w: w, c: c, a: a, b: b, d: d, id: TT.next, name: name}
	t.hi = upperBound(t)
	TT.next++
	TT.tab[k] = t
	return t
}

// upperBound computes a sound structural upper bound of the unsigned value of t from the bounds of its operands.
func upperBound(t *Term) uint64 {
	if t.w == 0 {
		return 1
	}
	m := mask(t.w)
	switch t.op {
	case OConst:
		return t.c
	case OZext:
		return t.a.hi
	case OIte:
		return max(t.b.hi, t.d.hi)
	case OBvAnd:
		return min(t.a.hi, t.b.hi)
	case OBvOr, OBvXor:
		x := max(t.a.hi, t.b.hi)
		return mask(uint8(bits.Len64(x)))
	case OBvAdd:
		s := t.a.hi + t.b.hi
		if s >= t.a.hi && s <= m {
			return s
		}
	case OBvMul:
		h, l := bits.Mul64(t.a.hi, t.b.hi)
		if h == 0 && l <= m {
			return l
		}
	case OBvUdiv:
		if t.b.IsConst() && t.b.c != 0 {
			return t.a.hi / t.b.c
		}
		return max(t.a.hi, m)
	case OBvUrem:
		if t.b.IsConst() && t.b.c != 0 {
			return min(t.a.hi, t.b.c-1)
		}
		return t.a.hi
	case OBvLshr:
		if t.b.IsConst() && t.b.c < 64 {
			return t.a.hi >> t.b.c
		}
		return t.a.hi
	case OBvShl:
		if t.b.IsConst() && t.b.c < 64 {
			if s := t.a.hi << t.b.c; s>>t.b.c == t.a.hi && s <= m {
				return s
			}
		}
	case OExtract:
		lo := uint8(t.c)
		if lo == 0 {
			return min(t.a.hi, m)
		}
		return min(t.a.hi>>lo, m)
	case OConcat:
		if t.w <= 64 {
			return t.a.hi<<t.b.w | t.b.hi
		}
	}
	return m
}

// needBits is the number of bits that hold every value up to hi.
func needBits(hi uint64) uint8 {
	n := uint8(bits.Len64(hi))
	if n == 0 {
		n = 1
	}
	return n
}

func mask(w uint8) uint64 {
	if w >= 64 {
		return ^uint64(0)
	}
	return (uint64(1) << w) - 1
}

func Const(w uint8, v uint64) *Term { return mk(OConst, w, v&mask(w), nil, nil, nil, "") }
func Bool(b bool) *Term {
	if b {
		return mk(OConst, 0, 1, nil, nil, nil, "")
	}
	return mk(OConst, 0, 0, nil, nil, nil, "")
}
func Var(w uint8, name string) *Term { return mk(OVar, w, 0, nil, nil, nil, name) }

func (t *Term) IsConst() bool { return t.op == OConst }
func (t *Term) IsTrue() bool  { return t.op == OConst && t.w == 0 && t.c == 1 }
func (t *Term) IsFalse() bool { return t.op == OConst && t.w == 0 && t.c == 0 }

func sx(w uint8, v uint64) int64 {
	if w >= 64 {
		return int64(v)
	}
	sh := 64 - uint(w)
	return int64(v<<sh) >> sh
}

func Not(a *Term) *Term {
	if a.IsConst() {
		return Bool(a.c == 0)
	}
	if a.op == ONot {
		return a.a
	}
	return mk(ONot, 0, 0, a, nil, nil, "")
}

func And(a, b *Term) *Term {
	if a.IsFalse() || b.IsFalse() {
		return Bool(false)
	}
	if a.IsTrue() {
		return b
	}
	if b.IsTrue() {
		return a
	}
	if a == b {
		return a
	}
	return mk(OAnd, 0, 0, a, b, nil, "")
}

func Or(a, b *Term) *Term {
	if a.IsTrue() || b.IsTrue() {
		return Bool(true)
	}
	if a.IsFalse() {
		return b
	}
	if b.IsFalse() {
		return a
	}
	if a == b {
		return a
	}
	return mk(OOr, 0, 0, a, b, nil, "")
}

func Eq(a, b *Term) *Term {
	if a.w != b.w {
		panic(fmt.Sprintf("Eq width mismatch %d %d", a.w, b.w))
	}
	if a == b {
		return Bool(true)
	}
	if a.IsConst() && b.IsConst() {
		return Bool(a.c == b.c)
	}
	if a.w == 0 {
		if a.IsConst() {
			a, b = b, a
		}
		if b.IsTrue() {
			return a
		}
		if b.IsFalse() {
			return Not(a)
		}
	}
	if a.IsConst() {
		a, b = b, a
	}
	// zext(x) == const  =>  x == const' (or false)
	if b.IsConst() && a.op == OZext {
		if b.c > mask(a.a.w) {
			return Bool(false)
		}
		return Eq(a.a, Const(a.a.w, b.c))
	}
	if a.id > b.id && !b.IsConst() {
		a, b = b, a
	}
	return mk(OEq, 0, 0, a, b, nil, "")
}

func Ite(c, a, b *Term) *Term {
	if c.IsTrue() {
		return a
	}
	if c.IsFalse() {
		return b
	}
	if a == b {
		return a
	}
	if a.w == 0 {
		if a.IsTrue() && b.IsFalse() {
			return c
		}
		if a.IsFalse() && b.IsTrue() {
			return Not(c)
		}
	}
	return mk(OIte, a.w, 0, c, a, b, "")
}

func cmp(op Op, a, b *Term) *Term {
	if a.w != b.w {
		panic("cmp width mismatch")
	}
	if a.IsConst() && b.IsConst() {
		switch op {
		case OUlt:
			return Bool(a.c < b.c)
		case OUle:
			return Bool(a.c <= b.c)
		case OSlt:
			return Bool(sx(a.w, a.c) < sx(b.w, b.c))
		case OSle:
			return Bool(sx(a.w, a.c) <= sx(b.w, b.c))
		}
	}
	if a == b {
		return Bool(op == OUle || op == OSle)
	}
	// both operands provably small: compare in a narrow width (signed compares of non-negative values are unsigned)
	if a.w >= 16 && a.w <= 64 {
		k := needBits(max(a.hi, b.hi))
		if k <= a.w/2 && a.op != OZext && b.op != OZext {
			uop := op
			if op == OSlt {
				uop = OUlt
			} else if op == OSle {
				uop = OUle
			}
			return cmp(uop, Extract(a, k-1, 0), Extract(b, k-1, 0))
		}
	}
	// unsigned compare of zext(x) against const: narrow
	if (op == OUlt || op == OUle) && a.op == OZext && b.IsConst() {
		if b.c > mask(a.a.w) {
			return Bool(true)
		}
		return cmp(op, a.a, Const(a.a.w, b.c))
	}
	if (op == OUlt || op == OUle) && b.op == OZext && a.IsConst() {
		if a.c > mask(b.a.w) {
			return Bool(false)
		}
		return cmp(op, Const(b.a.w, a.c), b.a)
	}
	// signed compare of zext (non-negative) values with non-negative const => unsigned
	if (op == OSlt || op == OSle) && a.op == OZext && a.a.w < a.w && b.IsConst() && sx(b.w, b.c) >= 0 {
		if op == OSlt {
			return cmp(OUlt, a, b)
		}
		return cmp(OUle, a, b)
	}
	if (op == OSlt || op == OSle) && b.op == OZext && b.a.w < b.w && a.IsConst() && sx(a.w, a.c) >= 0 {
		if op == OSlt {
			return cmp(OUlt, a, b)
		}
		return cmp(OUle, a, b)
	}
	return mk(op, 0, 0, a, b, nil, "")
}

func Ult(a, b *Term) *Term { return cmp(OUlt, a, b) }
func Ule(a, b *Term) *Term { return cmp(OUle, a, b) }
func Slt(a, b *Term) *Term { return cmp(OSlt, a, b) }
func Sle(a, b *Term) *Term { return cmp(OSle, a, b) }

func BvNot(a *Term) *Term {
	if a.IsConst() {
		return Const(a.w, ^a.c)
	}
	if a.op == OBvNot {
		return a.a
	}
	return mk(OBvNot, a.w, 0, a, nil, nil, "")
}

func BvNeg(a *Term) *Term {
	if a.IsConst() {
		return Const(a.w, -a.c)
	}
	return mk(OBvNeg, a.w, 0, a, nil, nil, "")
}

func constFold(op Op, w uint8, x, y uint64) (uint64, bool) {
	switch op {
	case OBvAnd:
		return x & y, true
	case OBvOr:
		return x | y, true
	case OBvXor:
		return x ^ y, true
	case OBvAdd:
		return x + y, true
	case OBvSub:
		return x - y, true
	case OBvMul:
		return x * y, true
	case OBvUdiv:
		if y == 0 {
			return mask(w), true
		}
		return x / y, true
	case OBvUrem:
		if y == 0 {
			return x, true
		}
		return x % y, true
	case OBvSdiv:
		if y == 0 {
			return 0, false
		}
		a, b := sx(w, x), sx(w, y)
		if b == -1 {
			return uint64(-a), true
		}
		return uint64(a / b), true
	case OBvSrem:
		if y == 0 {
			return 0, false
		}
		a, b := sx(w, x), sx(w, y)
		if b == -1 {
			return 0, true
		}
		return uint64(a % b), true
	case OBvShl:
		if y >= uint64(w) {
			return 0, true
		}
		return x << y, true
	case OBvLshr:
		if y >= uint64(w) {
			return 0, true
		}
		return x >> y, true
	case OBvAshr:
		a := sx(w, x)
		if y >= uint64(w) {
			y = uint64(w) - 1
		}
		return uint64(a >> y), true
	}
	return 0, false
}

func Bin(op Op, a, b *Term) *Term {
	if a.w != b.w {
		panic(fmt.Sprintf("Bin width mismatch %s %d %d", opName[op], a.w, b.w))
	}
	w := a.w
	if a.IsConst() && b.IsConst() {
		if v, ok := constFold(op, w, a.c, b.c); ok {
			return Const(w, v)
		}
	}
	// commutative: constant to the right
	switch op {
	case OBvAnd, OBvOr, OBvXor, OBvAdd, OBvMul:
		if a.IsConst() {
			a, b = b, a
		}
	}
	if b.IsConst() {
		switch op {
		case OBvAnd:
			if b.c == 0 {
				return b
			}
			if b.c == mask(w) {
				return a
			}
			// and of zext with mask covering low bits
			if a.op == OZext && b.c&mask(a.a.w) == mask(a.a.w) {
				return a
			}
		case OBvOr, OBvXor, OBvAdd, OBvSub, OBvShl, OBvLshr, OBvAshr:
			if b.c == 0 {
				return a
			}
		case OBvMul:
			if b.c == 0 {
				return b
			}
			if b.c == 1 {
				return a
			}
		case OBvUdiv:
			if b.c == 1 {
				return a
			}
		}
		// shifts by constants of concat/zext structures -> extract/concat
		if op == OBvLshr && b.c < uint64(w) && b.c%8 == 0 {
			// (x >> k) == zext(extract[w-1:k](x))
			k := uint8(b.c)
			return Zext(w, Extract(a, w-1, k))
		}
		if op == OBvShl && b.c < uint64(w) && b.c%8 == 0 {
			k := uint8(b.c)
			return Concat(Extract(a, w-1-k, 0), Const(k, 0))
		}
		if (op == OBvShl || op == OBvLshr) && b.c >= uint64(w) {
			return Const(w, 0)
		}
	}
	// (x + c1) + c2 -> x + (c1+c2); (x - c1) + c2, (x + c1) - c2, (x - c1) - c2 likewise
	if b.IsConst() && (op == OBvAdd || op == OBvSub) && (a.op == OBvAdd || a.op == OBvSub) && a.b.IsConst() {
		c1, c2 := a.b.c, b.c
		if a.op == OBvSub {
			c1 = -c1
		}
		if op == OBvSub {
			c2 = -c2
		}
		return Bin(OBvAdd, a.a, Const(w, c1+c2))
	}
	if op == OBvSub && b.IsConst() {
		return Bin(OBvAdd, a, Const(w, -b.c))
	}
	if a == b {
		switch op {
		case OBvAnd, OBvOr:
			return a
		case OBvXor, OBvSub:
			return Const(w, 0)
		}
	}
	// width narrowing: when the structural bounds of the operands show that the operation cannot leave k <= w/2 bits,
	// it is built in k bits and zero-extended (a 64-bit divider or multiplier becomes a 7-bit one)
	if w >= 16 {
		switch op {
		case OBvAdd, OBvMul, OBvUdiv, OBvUrem:
			var rhi uint64
			ok := false
			switch op {
			case OBvAdd:
				rhi = a.hi + b.hi
				ok = rhi >= a.hi
			case OBvMul:
				h, l := bits.Mul64(a.hi, b.hi)
				rhi, ok = l, h == 0
			case OBvUdiv, OBvUrem:
				rhi, ok = max(a.hi, b.hi), !(b.IsConst() && b.c == 0)
				if !b.IsConst() {
					ok = false // division by zero yields all-ones of the full width
				}
			}
			if ok {
				k := needBits(max(rhi, max(a.hi, b.hi)))
				if k <= w/2 {
					return Zext(w, mk(op, k, 0, Extract(a, k-1, 0), Extract(b, k-1, 0), nil, ""))
				}
			}
		}
	}
	// or of disjoint byte-structured values: try to merge concats (zext(x) | concat(y,0...))
	if op == OBvOr {
		if t := mergeOr(a, b); t != nil {
			return t
		}
	}
	return mk(op, w, 0, a, b, nil, "")
}

// knownZeroHigh returns number of high bits known zero; knownZeroLow number of low bits known zero.
func knownZeroHigh(t *Term) uint8 {
	switch t.op {
	case OConst:
		return uint8(bits.LeadingZeros64(t.c)) - (64 - t.w)
	case OZext:
		return t.w - t.a.w + knownZeroHigh(t.a)
	case OConcat:
		if t.a.IsConst() && t.a.c == 0 {
			return t.a.w + knownZeroHigh(t.b)
		}
		return knownZeroHigh(t.a)
	}
	return 0
}

func knownZeroLow(t *Term) uint8 {
	switch t.op {
	case OConst:
		if t.c == 0 {
			return t.w
		}
		return uint8(bits.TrailingZeros64(t.c))
	case OConcat:
		if t.b.IsConst() && t.b.c == 0 {
			return t.b.w + knownZeroLow(t.a)
		}
		return knownZeroLow(t.b)
	}
	return 0
}

// mergeOr: if a's nonzero bits are entirely below b's nonzero bits (or vice versa) build concat.
func mergeOr(a, b *Term) *Term {
	w := a.w
	try := func(lo, hi *Term) *Term {
		// lo occupies bits [0,k), hi occupies bits [k,w)
		k := w - knownZeroHigh(lo)
		if k == 0 || k >= w {
			return nil
		}
		if knownZeroLow(hi) >= k {
			return Concat(Extract(hi, w-1, k), Extract(lo, k-1, 0))
		}
		return nil
	}
	if t := try(a, b); t != nil {
		return t
	}
	if t := try(b, a); t != nil {
		return t
	}
	return nil
}

func Concat(hi, lo *Term) *Term {
	if hi.w == 0 || lo.w == 0 {
		panic("concat of bool")
	}
	w := hi.w + lo.w
	if hi.IsConst() && lo.IsConst() && w <= 64 {
		return Const(w, hi.c<<lo.w|lo.c)
	}
	// concat(0, x) = zext
	if hi.IsConst() && hi.c == 0 {
		return Zext(w, lo)
	}
	// adjacent extracts of same term
	if hi.op == OExtract && lo.op == OExtract && hi.a == lo.a {
		hh, hl := uint8(hi.c>>8), uint8(hi.c)
		lh, ll := uint8(lo.c>>8), uint8(lo.c)
		if hl == lh+1 {
			return Extract(hi.a, hh, ll)
		}
	}
	// concat(extract(x), concat(extract(x), rest)) -> reassociate
	if lo.op == OConcat && hi.op == OExtract && lo.a.op == OExtract && hi.a == lo.a.a {
		hh, hl := uint8(hi.c>>8), uint8(hi.c)
		lh, ll := uint8(lo.a.c>>8), uint8(lo.a.c)
		if hl == lh+1 {
			return Concat(Extract(hi.a, hh, ll), lo.b)
		}
	}
	return mk(OConcat, w, 0, hi, lo, nil, "")
}

func Extract(a *Term, hi, lo uint8) *Term {
	if hi < lo || hi >= a.w {
		panic(fmt.Sprintf("bad extract [%d:%d] of w=%d", hi, lo, a.w))
	}
	w := hi - lo + 1
	if w == a.w {
		return a
	}
	if a.IsConst() {
		return Const(w, a.c>>lo)
	}
	switch a.op {
	case OExtract:
		l0 := uint8(a.c)
		return Extract(a.a, hi+l0, lo+l0)
	case OConcat:
		lw := a.b.w
		if hi < lw {
			return Extract(a.b, hi, lo)
		}
		if lo >= lw {
			return Extract(a.a, hi-lw, lo-lw)
		}
		return Concat(Extract(a.a, hi-lw, 0), Extract(a.b, lw-1, lo))
	case OZext:
		iw := a.a.w
		if hi < iw {
			return Extract(a.a, hi, lo)
		}
		if lo >= iw {
			return Const(w, 0)
		}
		return Zext(w, Extract(a.a, iw-1, lo))
	case OSext:
		iw := a.a.w
		if hi < iw {
			return Extract(a.a, hi, lo)
		}
	case OBvAnd, OBvOr, OBvXor, OBvNot:
		// bitwise ops distribute over extract; only do so when it simplifies (an operand const)
		if a.op != OBvNot && (a.b.IsConst() || a.a.IsConst()) {
			return Bin(a.op, Extract(a.a, hi, lo), Extract(a.b, hi, lo))
		}
	case OIte:
		if a.a.IsConst() && a.b.IsConst() {
			return Ite(a.a, Extract(a.b, hi, lo), Extract(a.d, hi, lo))
		}
	}
	return mk(OExtract, w, uint64(hi)<<8|uint64(lo), a, nil, nil, "")
}

func Zext(w uint8, a *Term) *Term {
	if a.w == w {
		return a
	}
	if a.w > w {
		return Extract(a, w-1, 0)
	}
	if a.IsConst() {
		return Const(w, a.c)
	}
	if a.op == OZext {
		return Zext(w, a.a)
	}
	return mk(OZext, w, 0, a, nil, nil, "")
}

func Sext(w uint8, a *Term) *Term {
	if a.w == w {
		return a
	}
	if a.w > w {
		return Extract(a, w-1, 0)
	}
	if a.IsConst() {
		return Const(w, uint64(sx(a.w, a.c)))
	}
	if a.op == OZext && a.a.w < a.w {
		return Zext(w, a.a)
	}
	return mk(OSext, w, 0, a, nil, nil, "")
}

// BoolToBV converts Bool to 1-byte 0/1.
func BoolToBV(w uint8, b *Term) *Term { return Ite(b, Const(w, 1), Const(w, 0)) }

// ---- SMT-LIB printing ----

func sortOf(t *Term) string {
	if t.w == 0 {
		return "Bool"
	}
	return fmt.Sprintf("(_ BitVec %d)", t.w)
}

func constStr(t *Term) string {
	if t.w == 0 {
		if t.c == 1 {
			return "true"
		}
		return "false"
	}
	if t.w%4 == 0 {
		return fmt.Sprintf("#x%0*x", int(t.w/4), t.c)
	}
	return fmt.Sprintf("#b%0*b", int(t.w), t.c)
}

func ref(t *Term) string {
	switch t.op {
	case OConst:
		return constStr(t)
	case OVar:
		return t.name
	}
	return fmt.Sprintf("t%d", t.id)
}

// emitDefs appends definitions for t (and undefined subterms) to sb, in dependency order.
func emitDefs(t *Term, sb *strings.Builder) {
	if t == nil || t.defGen == solverGen || t.op == OConst {
		return
	}
	// iterative post-order to avoid deep recursion
	type fr struct {
		t *Term
		k int
	}
	st := []fr{{t, 0}}
	for len(st) > 0 {
		f := &st[len(st)-1]
		if f.t.defGen == solverGen || f.t.op == OConst {
			st = st[:len(st)-1]
			continue
		}
		var kids [3]*Term
		kids[0], kids[1], kids[2] = f.t.a, f.t.b, f.t.d
		if f.k < 3 {
			c := kids[f.k]
			f.k++
			if c != nil && c.defGen != solverGen && c.op != OConst {
				st = append(st, fr{c, 0})
			}
			continue
		}
		x := f.t
		st = st[:len(st)-1]
		x.defGen = solverGen
		if x.op == OVar {
			fmt.Fprintf(sb, "(declare-const %s %s)\n", x.name, sortOf(x))
			continue
		}
		fmt.Fprintf(sb, "(define-fun t%d () %s ", x.id, sortOf(x))
		switch x.op {
		case OExtract:
			fmt.Fprintf(sb, "((_ extract %d %d) %s)", x.c>>8, x.c&0xff, ref(x.a))
		case OZext:
			fmt.Fprintf(sb, "((_ zero_extend %d) %s)", x.w-x.a.w, ref(x.a))
		case OSext:
			fmt.Fprintf(sb, "((_ sign_extend %d) %s)", x.w-x.a.w, ref(x.a))
		case OIte:
			fmt.Fprintf(sb, "(ite %s %s %s)", ref(x.a), ref(x.b), ref(x.d))
		case ONot, OBvNot, OBvNeg:
			fmt.Fprintf(sb, "(%s %s)", opName[x.op], ref(x.a))
		default:
			fmt.Fprintf(sb, "(%s %s %s)", opName[x.op], ref(x.a), ref(x.b))
		}
		sb.WriteString(")\n")
	}
}

// evalOp computes t's value from the values of its operands.
func evalOp(t *Term, x, y, z uint64) uint64 {
	switch t.op {
	case ONot:
		return 1 - x
	case OAnd:
		return x & y
	case OOr:
		return x | y
	case OEq:
		return b2u(x == y)
	case OUlt:
		return b2u(x < y)
	case OUle:
		return b2u(x <= y)
	case OSlt:
		return b2u(sx(t.a.w, x) < sx(t.a.w, y))
	case OSle:
		return b2u(sx(t.a.w, x) <= sx(t.a.w, y))
	case OIte:
		if x != 0 {
			return y
		}
		return z
	case OBvNot:
		return ^x & mask(t.w)
	case OBvNeg:
		return -x & mask(t.w)
	case OConcat:
		return x<<t.b.w | y
	case OExtract:
		return (x >> (t.c & 0xff)) & mask(t.w)
	case OZext:
		return x
	case OSext:
		return uint64(sx(t.a.w, x)) & mask(t.w)
	}
	r, ok := constFold(t.op, t.w, x, y)
	if !ok {
		r = 0
	}
	return r & mask(t.w)
}

// Eval evaluates t under a model (var name -> value); missing vars are 0.
func Eval(t *Term, m map[string]uint64, memo map[*Term]uint64) uint64 {
	if t.op == OConst {
		return t.c
	}
	if v, ok := memo[t]; ok {
		return v
	}
	var v uint64
	switch t.op {
	case OVar:
		v = m[t.name] & mask(t.w)
		if t.w == 0 {
			v = m[t.name] & 1
		}
	case ONot:
		v = 1 - Eval(t.a, m, memo)
	case OAnd:
		v = Eval(t.a, m, memo) & Eval(t.b, m, memo)
	case OOr:
		v = Eval(t.a, m, memo) | Eval(t.b, m, memo)
	case OEq:
		v = b2u(Eval(t.a, m, memo) == Eval(t.b, m, memo))
	case OUlt:
		v = b2u(Eval(t.a, m, memo) < Eval(t.b, m, memo))
	case OUle:
		v = b2u(Eval(t.a, m, memo) <= Eval(t.b, m, memo))
	case OSlt:
		v = b2u(sx(t.a.w, Eval(t.a, m, memo)) < sx(t.a.w, Eval(t.b, m, memo)))
	case OSle:
		v = b2u(sx(t.a.w, Eval(t.a, m, memo)) <= sx(t.a.w, Eval(t.b, m, memo)))
	case OIte:
		if Eval(t.a, m, memo) != 0 {
			v = Eval(t.b, m, memo)
		} else {
			v = Eval(t.d, m, memo)
		}
	case OBvNot:
		v = ^Eval(t.a, m, memo) & mask(t.w)
	case OBvNeg:
		v = -Eval(t.a, m, memo) & mask(t.w)
	case OConcat:
		v = Eval(t.a, m, memo)<<t.b.w | Eval(t.b, m, memo)
	case OExtract:
		v = (Eval(t.a, m, memo) >> (t.c & 0xff)) & mask(t.w)
	case OZext:
		v = Eval(t.a, m, memo)
	case OSext:
		v = uint64(sx(t.a.w, Eval(t.a, m, memo))) & mask(t.w)
	default:
		x, y := Eval(t.a, m, memo), Eval(t.b, m, memo)
		r, ok := constFold(t.op, t.w, x, y)
		if !ok {
			r = 0
		}
		v = r & mask(t.w)
	}
	memo[t] = v
	return v
}

func b2u(b bool) uint64 {
	if b {
		return 1
	}
	return 0
}
