package main

import (
	"fmt"
	"go/types"

	"golang.org/x/tools/go/ssa"
)

// Val is an SSA register value:
//   *Term    scalar (bool w=0, ints, floats as bit patterns)
//   Ptr      pointer (obj==nil => nil)
//   PtrInt   uintptr carrying pointer provenance
//   Str      string (concrete length)
//   Slice    slice (concrete len/cap)
//   Iface    interface value (t==nil => nil interface)
//   Agg      struct / array / tuple
//   *Closure function value (nil => nil func)
//   *MapObj  map (nil => nil map)
//   RType    emulated reflect.Type (inside Iface)
type Val interface{}

type Ptr struct {
	obj *Obj
	off int
}

type PtrInt struct{ p Ptr }

type Str struct {
	p Ptr
	n int
}

type Slice struct {
	p    Ptr
	n, c int
}

type Iface struct {
	t types.Type
	v Val
}

type Agg []Val

type Closure struct {
	fn  *ssa.Function
	env []Val
	// builtin or bound method could be added later
}

// MapEntry keeps the key as an (immutable) register value and the element in a heap slot of the element type's size,
// so that runtime-style access (mapassign returns a pointer to the slot, iterators hand out key/value pointers) works.
type MapEntry struct {
	k    Val
	vobj *Obj
	kobj *Obj // created on demand for iterators that need the key's address
}
type MapObj struct {
	id      int
	hdr     *Obj // the address of the map header: what an unsafe.Pointer view of the map value holds
	entries []MapEntry
	typ     *types.Map
	snap    bool
	dirty   bool
	saved   []MapEntry
	frozen  bool
}

func (p Ptr) IsNil() bool { return p.obj == nil }

func (p Ptr) String() string {
	if p.obj == nil {
		return "nil"
	}
	return fmt.Sprintf("&o%d+%d", p.obj.id, p.off)
}

// pathEnd is thrown (Go panic) to terminate the current path.
type pathEnd struct {
	status string // "PANIC", "ASSUME", "BUDGET", "UNSUPPORTED", "MEMSAFETY", "DONE"
	msg    string
}

func (e pathEnd) Error() string { return e.status + ": " + e.msg }

var callStack []string // names of the SSA functions being executed (diagnostics only)

func endPath(status, f string, a ...interface{}) {
	msg := fmt.Sprintf(f, a...)
	if (status == "UNSUPPORTED" || status == "MEMSAFETY") && len(callStack) > 0 {
		n := len(callStack)
		msg += " [in " + callStack[n-1]
		if n > 1 {
			msg += " <- " + callStack[n-2]
		}
		if n > 2 {
			msg += " <- " + callStack[n-3]
		}
		msg += "]"
	}
	panic(pathEnd{status, msg})
}
