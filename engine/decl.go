package main

import "fmt"

// declSource is injected (overlay) into the package under analysis: bodyless intrinsics the executor intercepts.
func declSource(pkg string) string {
	return fmt.Sprintf(`package %s

func vfByte() byte
func vfU16() uint16
func vfU32() uint32
func vfU64() uint64
func vfInt() int
func vfBool() bool
func vfF64() float64
func vfF32() float32
func vfBytes(n int) []byte
func vfString(n int) string
func vfIntIn(lo, hi int) int
func vfAssume(c bool)
func vfAssert(c bool, id string)
func vfCover(id string)
func vfObserve(id string, x uint64)
func vfAnd(a, b bool) bool
func vfOr(a, b bool) bool
func vfIte(c bool, a, b uint64) uint64
func vfNative() bool
func vfKnown(id string)
func vfKnownEnd()
func vfSameObj(a, b []byte) bool
func vfOffsetIn(sub, whole []byte) int
func vfAllocLimit(n int)
func vfAllocMax() int
func vfAllocExplore(n int)
func vfModelBug(id string)
func vfPoolMode(mode int)
func vfCPUAll()
func vfStrBytes(s string) []byte
func vfUF(name string)
func vfUFOff(name string)
func vfCalls(name string) int
func vfWatch(name string)
func vfArgU64(name string, i int) uint64
func vfWitness0() uint64
func vfConcurrency(mode int)
`, pkg)
}

// replaySource is the native build of the same intrinsics: nondets read a concrete witness vector.
func replaySource(pkg string) string {
	return fmt.Sprintf(`package %s

import (
	"runtime"
	"unsafe"
)

var (
	vfWitness   []uint64
	vfPos       int
	vfFailed    []string
	vfCovered   []string
	vfObserved  []string
	vfModelBugs []string
	vfAssumeBad bool
	vfKnownCur  string
	vfAllocLim  int
	vfAllocBase uint64
)

func vfNext() uint64 {
	if vfPos >= len(vfWitness) {
		vfPos++
		return 0
	}
	v := vfWitness[vfPos]
	vfPos++
	return v
}
func vfByte() byte     { return byte(vfNext()) }
func vfU16() uint16    { return uint16(vfNext()) }
func vfU32() uint32    { return uint32(vfNext()) }
func vfU64() uint64    { return vfNext() }
func vfInt() int       { return int(vfNext()) }
func vfBool() bool     { return vfNext()&1 != 0 }
func vfF64() float64   { x := vfNext(); return *(*float64)(unsafe.Pointer(&x)) }
func vfF32() float32   { x := uint32(vfNext()); return *(*float32)(unsafe.Pointer(&x)) }
func vfBytes(n int) []byte {
	b := make([]byte, n)
	for i := range b {
		b[i] = vfByte()
	}
	return b
}
func vfString(n int) string { return string(vfBytes(n)) }
func vfIntIn(lo, hi int) int {
	v := int(int64(vfNext()))
	if v < lo || v > hi {
		vfAssumeBad = true
		panic("vf: witness violates vfIntIn range")
	}
	return v
}
func vfAssume(c bool) {
	if !c {
		vfAssumeBad = true
		panic("vf: witness violates an assumption")
	}
}
func vfAssert(c bool, id string) {
	if !c {
		vfFailed = append(vfFailed, id)
	}
}
func vfCover(id string)              { vfCovered = append(vfCovered, id) }
func vfObserve(id string, x uint64)  { vfObserved = append(vfObserved, id+"="+vfUtoa(x)) }
func vfAnd(a, b bool) bool           { return a && b }
func vfOr(a, b bool) bool            { return a || b }
func vfIte(c bool, a, b uint64) uint64 {
	if c {
		return a
	}
	return b
}
func vfNative() bool      { return true }
func vfKnown(id string)   { vfKnownCur = id }
func vfKnownEnd()         { vfKnownCur = "" }
func vfModelBug(id string) { vfModelBugs = append(vfModelBugs, id) }
func vfPoolMode(mode int) {}
func vfCPUAll()            {}
func vfStrBytes(s string) []byte { return unsafe.Slice(unsafe.StringData(s), len(s)) }
func vfUF(name string)         {}
func vfUFOff(name string)      {}
func vfCalls(name string) int  { return 0 }
func vfWatch(name string)      {}
func vfArgU64(name string, i int) uint64 { return 0 }
func vfConcurrency(mode int) {}
func vfWitness0() uint64 {
	if len(vfWitness) > 0 {
		return vfWitness[0]
	}
	return 0
}
func vfSameObj(a, b []byte) bool {
	if cap(a) == 0 || cap(b) == 0 {
		return false
	}
	pa := uintptr(unsafe.Pointer(unsafe.SliceData(a)))
	pb := uintptr(unsafe.Pointer(unsafe.SliceData(b)))
	return pa < pb+uintptr(cap(b)) && pb < pa+uintptr(cap(a))
}
func vfOffsetIn(sub, whole []byte) int {
	if cap(whole) == 0 {
		return -1
	}
	ps := uintptr(unsafe.Pointer(unsafe.SliceData(sub)))
	pw := uintptr(unsafe.Pointer(unsafe.SliceData(whole)))
	if ps >= pw && ps <= pw+uintptr(cap(whole)) {
		return int(ps - pw)
	}
	return -1
}
func vfAllocLimit(n int) {
	var ms runtime.MemStats
	runtime.ReadMemStats(&ms)
	vfAllocLim, vfAllocBase = n, ms.TotalAlloc
}
func vfAllocMax() int { return 0 }
func vfAllocExplore(n int) {}
func vfAllocCheck() {
	if vfAllocLim > 0 {
		var ms runtime.MemStats
		runtime.ReadMemStats(&ms)
		if ms.TotalAlloc-vfAllocBase > uint64(vfAllocLim)+(64<<10) {
			vfFailed = append(vfFailed, "alloc-limit")
		}
	}
}
func vfUtoa(x uint64) string {
	if x == 0 {
		return "0"
	}
	var b [20]byte
	i := len(b)
	for x > 0 {
		i--
		b[i] = byte('0' + x%%10)
		x /= 10
	}
	return string(b[i:])
}
`, pkg)
}
