package main

import (
	"bufio"
	"runtime"
	"encoding/json"
	"flag"
	"fmt"
	"os"
	"path/filepath"
	"sort"
	"strings"
	"time"

	"golang.org/x/tools/go/packages"
	"golang.org/x/tools/go/ssa"
	"golang.org/x/tools/go/ssa/ssautil"
)

// Job is one exploration: a harness function, parameter assignments and budgets.
type Job struct {
	ID        int            `json:"id"`
	Unit      string         `json:"unit,omitempty"`
	Harness   string         `json:"harness"`
	Sets      map[string]int `json:"sets,omitempty"`
	MaxPaths  int            `json:"maxpaths,omitempty"`
	MaxSteps  int            `json:"maxsteps,omitempty"`
	MaxDepth  int            `json:"maxdepth,omitempty"`
	TimeoutMs int            `json:"timeout_ms,omitempty"`
	NoInit    bool           `json:"noinit,omitempty"`
	InitPkgs  []string       `json:"initpkgs,omitempty"`
	Warm      string         `json:"warm,omitempty"`
	Frontier  int            `json:"frontier,omitempty"` // >0: stop every path after this many decisions and return the prefixes
	Prefix    []int          `json:"prefix,omitempty"`   // explore only the subtree below this decision prefix
	Model     map[string]uint64 `json:"model,omitempty"`
	Concrete  []uint64       `json:"concrete,omitempty"` // concrete mode: harness nondets take these values in order
	MaxConc   int            `json:"maxconc,omitempty"`  // concretisation fan-out cap (default 64)
	ConcRet   []string       `json:"concret,omitempty"`  // functions whose scalar result is concretised eagerly (exploration strategy only)
	DeadlineS float64        `json:"deadline_s,omitempty"`
	HangIsBug bool           `json:"hang_is_violation,omitempty"` // termination is part of the property: BUDGET ends are counterexample candidates
}

type ViolationOut struct {
	Kind    string   `json:"kind"` // ASSERT, PANIC, MEMSAFETY
	ID      string   `json:"id"`
	Msg     string   `json:"msg,omitempty"`
	Witness []uint64 `json:"witness"`
	EnvNondets int   `json:"env_nondets,omitempty"`
	Prefix  []int    `json:"prefix,omitempty"`
	Known   string   `json:"known,omitempty"`
}

type FrontierItem struct {
	Prefix []int             `json:"prefix"`
	Model  map[string]uint64 `json:"model,omitempty"`
}

type Result struct {
	ID         int               `json:"id"`
	Unit       string            `json:"unit,omitempty"`
	Harness    string            `json:"harness"`
	Sets       map[string]int    `json:"sets,omitempty"`
	Err        string            `json:"err,omitempty"`
	Paths      int               `json:"paths"`
	Forks      int               `json:"forks"`
	Steps      int               `json:"steps"`
	Decisions  int               `json:"decisions"`
	Concretize int               `json:"concretize"`
	DomDecided int               `json:"dom_decided"`
	CacheHits  int               `json:"cache_hits"`
	Asserts    int               `json:"asserts"`
	Discharged int               `json:"discharged"`
	Unknown    int               `json:"unknown"`
	Queries    int               `json:"queries"`
	Sat        int               `json:"sat"`
	Unsat      int               `json:"unsat"`
	SolverUnknown int            `json:"solver_unknown"`
	SolverS    float64           `json:"solver_s"`
	WallS      float64           `json:"wall_s"`
	Ends       map[string]int    `json:"ends"`
	EndSamples map[string]string `json:"end_samples,omitempty"`
	Covers     map[string]int    `json:"covers,omitempty"`
	Funcs      map[string]int    `json:"funcs,omitempty"`
	Stubs      map[string]int    `json:"stubs,omitempty"`
	Violations []ViolationOut    `json:"violations,omitempty"`
	Frontier   []FrontierItem    `json:"frontier,omitempty"`
	Samples    []string          `json:"samples,omitempty"`
	Observed   []string          `json:"observed,omitempty"`
	AssertIDs  map[string]int    `json:"assert_ids,omitempty"`
	KnownHit   map[string]int    `json:"known_hit,omitempty"`
	MaxAlloc   int               `json:"max_alloc,omitempty"`
}

type loaded struct {
	prog      *ssa.Program
	pkg       *ssa.Package
	loadS     float64
	linknames map[string]string // bodyless function (full name) -> //go:linkname target
}

func overlayFiles(lf loadFlags) (map[string][]byte, string, error) {
	pkgDir := filepath.Join(lf.dir, lf.pkg)
	ov := map[string][]byte{}
	pkgName := ""
	for _, d := range strings.Split(lf.overlay, ",") {
		if d == "" {
			continue
		}
		files, _ := filepath.Glob(filepath.Join(d, "*.go"))
		sort.Strings(files)
		inPlace := filepath.Clean(d) == filepath.Clean(pkgDir) // the harness package itself (external harness module)
		for _, f := range files {
			base := filepath.Base(f)
			if strings.HasSuffix(base, "_native.go") || strings.HasSuffix(base, "_test.go") {
				continue
			}
			b, err := os.ReadFile(f)
			if err != nil {
				return nil, "", err
			}
			if pkgName == "" {
				pkgName = packageClause(b)
			}
			if !inPlace {
				ov[filepath.Join(pkgDir, "zz_vf_"+base)] = b
			}
		}
	}
	if pkgName != "" {
		ov[filepath.Join(pkgDir, "zz_vf_decl.go")] = []byte(declSource(pkgName))
	}
	return ov, pkgName, nil
}

func packageClause(src []byte) string {
	for _, l := range strings.Split(string(src), "\n") {
		l = strings.TrimSpace(l)
		if strings.HasPrefix(l, "package ") {
			return strings.TrimSpace(strings.TrimPrefix(l, "package "))
		}
	}
	return ""
}

func loadProgram(lf loadFlags) (*loaded, error) {
	t0 := time.Now()
	cfg := &packages.Config{Mode: packages.LoadAllSyntax, Dir: lf.dir, BuildFlags: []string{"-tags=" + lf.tags},
		Env: append(os.Environ(), "GOFLAGS=-mod=mod", "GOPROXY=off", "GOSUMDB=off", "GOTOOLCHAIN=local")}
	ov, _, err := overlayFiles(lf)
	if err != nil {
		return nil, err
	}
	cfg.Overlay = ov
	pkgs, err := packages.Load(cfg, lf.pkg)
	if err != nil {
		return nil, err
	}
	nerr := 0
	var sb strings.Builder
	packages.Visit(pkgs, nil, func(p *packages.Package) {
		for _, e := range p.Errors {
			// bodyless intrinsics are reported by the compiler front end only, not by go/types
			nerr++
			fmt.Fprintf(&sb, "%s\n", e)
		}
	})
	if nerr > 0 {
		return nil, fmt.Errorf("load errors:\n%s", sb.String())
	}
	// //go:linkname directives: the binding of bodyless functions to runtime symbols is part of the program
	links := map[string]string{}
	packages.Visit(pkgs, nil, func(p *packages.Package) {
		for _, f := range p.Syntax {
			for _, cg := range f.Comments {
				for _, c := range cg.List {
					if strings.HasPrefix(c.Text, "//go:linkname ") {
						fs := strings.Fields(c.Text)
						if len(fs) == 3 {
							links[p.PkgPath+"."+fs[1]] = fs[2]
						}
					}
				}
			}
		}
	})
	prog, spkgs := ssautil.AllPackages(pkgs, ssa.InstantiateGenerics)
	prog.Build()
	return &loaded{prog: prog, pkg: spkgs[0], loadS: time.Since(t0).Seconds(), linknames: links}, nil
}

func workerMain(args []string) {
	fs := flag.NewFlagSet("worker", flag.ExitOnError)
	var lf loadFlags
	lf.register(fs)
	fs.Parse(args)
	out := bufio.NewWriter(os.Stdout)
	enc := json.NewEncoder(out)
	ld, err := loadProgram(lf)
	if err != nil {
		enc.Encode(&Result{ID: -1, Err: "load: " + err.Error()})
		out.Flush()
		os.Exit(2)
	}
	runtime.GOMAXPROCS(1)
	enc.Encode(&Result{ID: -1, Harness: "loaded", WallS: ld.loadS})
	out.Flush()
	in := bufio.NewReaderSize(os.Stdin, 1<<20)
	for {
		line, err := in.ReadBytes('\n')
		if len(line) > 1 {
			var job Job
			if e := json.Unmarshal(line, &job); e != nil {
				enc.Encode(&Result{ID: -2, Err: "bad job: " + e.Error()})
			} else {
				res := runJob(ld, &job, false, "")
				enc.Encode(res)
			}
			out.Flush()
		}
		if err != nil {
			return
		}
	}
}

// runJob explores one job. Engine panics (bugs, unsupported shapes that escape endPath) are turned into Err.
func runJob(ld *loaded, job *Job, trace bool, smtlog string) (res *Result) {
	t0 := time.Now()
	res = &Result{ID: job.ID, Unit: job.Unit, Harness: job.Harness, Sets: job.Sets}
	fn := ld.pkg.Func(job.Harness)
	if fn == nil {
		res.Err = "no such harness " + job.Harness
		return
	}
	m := NewMachine(ld, job)
	m.trace = trace
	m.solver = NewSolver(job.TimeoutMs)
	if smtlog != "" {
		f, _ := os.Create(smtlog)
		defer f.Close()
		m.solver.log = f
	}
	defer func() {
		if r := recover(); r != nil {
			res.Err = fmt.Sprintf("engine panic: %v", r)
			if os.Getenv("VF_DEBUG") != "" {
				panic(r)
			}
		}
		m.solver.Close()
		m.fill(res)
		res.WallS = time.Since(t0).Seconds()
	}()
	m.Explore(fn)
	return
}
