package main

import (
	"encoding/binary"
	"sort"
)

// Constraint independence + query cache (after KLEE): a feasibility query "pc ∧ c" only depends on the conjuncts of pc
// that share variables, transitively, with c. The answer is cached under that slice, which recurs on the many paths that
// differ only in decisions about unrelated inputs (other fields of a message, other bytes of a document).

var varsMemo = map[*Term][]int32{}

func varsOf(t *Term) []int32 {
	if t.op == OConst {
		return nil
	}
	if v, ok := varsMemo[t]; ok {
		return v
	}
	var r []int32
	if t.op == OVar {
		r = []int32{int32(t.id)}
	} else {
		for _, k := range [3]*Term{t.a, t.b, t.d} {
			if k != nil {
				r = mergeSorted(r, varsOf(k))
			}
		}
	}
	varsMemo[t] = r
	return r
}

func mergeSorted(a, b []int32) []int32 {
	if len(a) == 0 {
		return b
	}
	if len(b) == 0 {
		return a
	}
	out := make([]int32, 0, len(a)+len(b))
	i, j := 0, 0
	for i < len(a) && j < len(b) {
		switch {
		case a[i] < b[j]:
			out = append(out, a[i])
			i++
		case a[i] > b[j]:
			out = append(out, b[j])
			j++
		default:
			out = append(out, a[i])
			i++
			j++
		}
	}
	out = append(out, a[i:]...)
	out = append(out, b[j:]...)
	return out
}

type qcEntry struct {
	res   string
	model map[string]uint64 // values of the slice's variables (sat only)
}

// sliceKey returns the cache key of (relevant part of pc, c) and the variable ids of the component.
func (m *Machine) sliceKey(c *Term) (string, map[int32]bool) {
	vs := map[int32]bool{}
	for _, v := range varsOf(c) {
		vs[v] = true
	}
	used := make([]bool, len(m.pc))
	var ids []int
	for changed := true; changed; {
		changed = false
		for i, p := range m.pc {
			if used[i] {
				continue
			}
			pv := varsOf(p)
			hit := false
			for _, v := range pv {
				if vs[v] {
					hit = true
					break
				}
			}
			if hit {
				used[i] = true
				ids = append(ids, p.id)
				for _, v := range pv {
					if !vs[v] {
						vs[v] = true
						changed = true
					}
				}
			}
		}
	}
	sort.Ints(ids)
	buf := make([]byte, 0, 4*len(ids)+8)
	prev := -1
	for _, id := range ids {
		if id == prev {
			continue
		}
		prev = id
		buf = binary.LittleEndian.AppendUint32(buf, uint32(id))
	}
	buf = append(buf, 0xff, 0xff, 0xff, 0xff)
	buf = binary.LittleEndian.AppendUint32(buf, uint32(c.id))
	return string(buf), vs
}

// checkCached decides pc ∧ c. On "sat" the returned model satisfies pc ∧ c (cached slice model merged into the current
// model, which satisfies the independent rest of pc).
func (m *Machine) checkCached(c *Term) (string, map[string]uint64) {
	if dbgNoCache {
		return m.checkPlain(c)
	}
	key, vs := m.sliceKey(c)
	if e, ok := m.qcache[key]; ok {
		m.stats.cacheHits++
		if e.res != "sat" {
			return e.res, nil
		}
		mod := copyModel(m.model)
		for k, v := range e.model {
			mod[k] = v
		}
		return "sat", mod
	}
	res, mod := m.checkPlain(c)
	if res == "unknown" {
		return res, mod
	}
	e := qcEntry{res: res}
	if res == "sat" {
		e.model = map[string]uint64{}
		for _, v := range m.nondets {
			if vs[int32(v.id)] {
				e.model[v.name] = mod[v.name]
			}
		}
	}
	m.qcache[key] = e
	return res, mod
}

func (m *Machine) checkPlain(c *Term) (string, map[string]uint64) {
	m.solver.Push()
	m.solver.Assert(c)
	r := m.solver.Check()
	if m.solver.dead {
		m.rebuildSolver()
		return "unknown", nil
	}
	var mod map[string]uint64
	if r == "sat" {
		mod = m.solver.Model(m.nondets)
		if m.solver.dead {
			m.rebuildSolver()
			return "unknown", nil
		}
	}
	m.solver.Pop(1)
	return r, mod
}

// rebuildSolver starts a fresh solver process after a hard timeout and restores the assertion stack from the path
// condition (one push per conjunct, as takeCond does).
func (m *Machine) rebuildSolver() {
	m.solver = NewSolver(m.job.TimeoutMs)
	for _, c := range m.pc {
		m.solver.Push()
		m.solver.Assert(c)
	}
}
