package main

import (
	"bufio"
	"encoding/json"
	"fmt"
	"io"
	"os"
	"os/exec"
	"path/filepath"
	"sort"
	"strconv"
	"strings"
	"sync"
	"time"
)

// ---------- specification of a check ----------

type Spec struct {
	Property    string   `json:"property"`
	Title       string   `json:"title"`
	Level       string   `json:"level"`
	Assumptions []string `json:"assumptions"`
	Outside     []string `json:"outside_claim"`
	Units       []Unit   `json:"units"`
}

type Unit struct {
	Name      string                                `json:"name"`
	Desc      string                                `json:"desc"`
	Dir       string                                `json:"dir"`
	Pkg       string                                `json:"pkg"`
	Overlay   []string                              `json:"overlay"`
	Tags      string                                `json:"tags"`
	Harness   string                                `json:"harness"`
	Grid      map[string]map[string]json.RawMessage `json:"grid"`
	Tiers     []string                              `json:"tiers"`
	MaxPaths  map[string]int                        `json:"maxpaths"`
	MaxSteps  int                                   `json:"maxsteps"`
	MaxDepth  int                                   `json:"maxdepth"`
	MaxConc   int                                   `json:"maxconc"`
	TimeoutMs int                                   `json:"timeout_ms"`
	Split     map[string]int                        `json:"split"`
	NoInit    bool                                  `json:"noinit"`
	InitPkgs  []string                              `json:"initpkgs"`
	ConcRet   []string                              `json:"concret"`
	Warm      string                                `json:"warm"`
	Covers    []string                              `json:"covers"`
	BudgetOK  bool                                  `json:"budget_ok"`
	HangIsBug bool                                  `json:"hang_is_violation"`
	EnvOK     bool                                  `json:"env_counterexamples"` // counterexamples that depend on environment choices (other goroutines) cannot be replayed sequentially: report them
	DeadlineS map[string]float64                    `json:"deadline_s"`
	Weight    int                                   `json:"weight"`
}

func parseValues(raw json.RawMessage) ([]int, error) {
	var list []int
	if err := json.Unmarshal(raw, &list); err == nil {
		return list, nil
	}
	var s string
	if err := json.Unmarshal(raw, &s); err != nil {
		return nil, fmt.Errorf("grid value must be a list of ints or a range string: %s", raw)
	}
	var out []int
	for _, part := range strings.Split(s, ",") {
		part = strings.TrimSpace(part)
		if part == "" {
			continue
		}
		if i := strings.Index(part, ".."); i >= 0 {
			lo, e1 := strconv.Atoi(part[:i])
			hi, e2 := strconv.Atoi(part[i+2:])
			if e1 != nil || e2 != nil {
				return nil, fmt.Errorf("bad range %q", part)
			}
			for v := lo; v <= hi; v++ {
				out = append(out, v)
			}
		} else {
			v, err := strconv.Atoi(part)
			if err != nil {
				return nil, fmt.Errorf("bad value %q", part)
			}
			out = append(out, v)
		}
	}
	return out, nil
}

func tierVal[T any](m map[string]T, tier string) (T, bool) {
	if v, ok := m[tier]; ok {
		return v, true
	}
	v, ok := m["all"]
	return v, ok
}

func (u *Unit) inTier(tier string) bool {
	if len(u.Tiers) == 0 {
		return true
	}
	for _, t := range u.Tiers {
		if t == tier {
			return true
		}
	}
	return false
}

// expand returns the parameter assignments of the unit for a tier.
func (u *Unit) expand(tier string) ([]map[string]int, error) {
	res := []map[string]int{{}}
	var names []string
	for n := range u.Grid {
		names = append(names, n)
	}
	sort.Strings(names)
	for _, n := range names {
		raw, ok := tierVal(u.Grid[n], tier)
		if !ok {
			return nil, fmt.Errorf("unit %s: grid %s has no values for tier %s", u.Name, n, tier)
		}
		vals, err := parseValues(raw)
		if err != nil {
			return nil, err
		}
		var next []map[string]int
		for _, a := range res {
			for _, v := range vals {
				b := map[string]int{}
				for k, x := range a {
					b[k] = x
				}
				b[n] = v
				next = append(next, b)
			}
		}
		res = next
	}
	return res, nil
}

// ---------- scheduling ----------

type qJob struct {
	job    *Job
	unit   *Unit
	key    string
	weight int
}

type unitAgg struct {
	unit       *Unit
	jobs       int
	results    []*Result
	violations []vioRec
	errs       []string
}

type vioRec struct {
	unit *Unit
	sets map[string]int
	v    ViolationOut
}

type sched struct {
	mu          sync.Mutex
	cond        *sync.Cond
	queue       []*qJob
	outstanding int
	nextID      int
	aggs        map[string]*unitAgg
	order       []string
	tier        string
	verbose     bool
	failFast    bool
	stop        bool
}

func (s *sched) add(q *qJob) {
	q.job.ID = s.nextID
	s.nextID++
	s.queue = append(s.queue, q)
	s.outstanding++
	s.cond.Broadcast()
}

// take returns the next job, preferring one with the given key; nil when everything is finished.
func (s *sched) take(key string) *qJob {
	s.mu.Lock()
	defer s.mu.Unlock()
	for {
		if len(s.queue) > 0 {
			best := -1
			for i, q := range s.queue {
				if q.key == key {
					if best < 0 || s.queue[best].key != key || q.weight > s.queue[best].weight {
						best = i
					}
				} else if best < 0 || (s.queue[best].key != key && q.weight > s.queue[best].weight) {
					best = i
				}
			}
			q := s.queue[best]
			s.queue = append(s.queue[:best], s.queue[best+1:]...)
			return q
		}
		if s.outstanding == 0 {
			return nil
		}
		s.cond.Wait()
	}
}

func (s *sched) done(q *qJob, r *Result) {
	s.mu.Lock()
	defer s.mu.Unlock()
	a := s.aggs[q.unit.Name]
	a.results = append(a.results, r)
	if r.Err != "" {
		a.errs = append(a.errs, fmt.Sprintf("%s %v: %s", r.Harness, r.Sets, r.Err))
	}
	for _, v := range r.Violations {
		a.violations = append(a.violations, vioRec{q.unit, q.job.Sets, v})
	}
	// frontier result: enqueue the sub-trees
	if q.job.Frontier > 0 {
		for _, f := range r.Frontier {
			j := *q.job
			j.Frontier = 0
			j.Prefix = f.Prefix
			j.Model = f.Model
			s.add(&qJob{job: &j, unit: q.unit, key: q.key, weight: q.weight})
		}
	}
	s.outstanding--
	if s.verbose {
		fmt.Fprintf(os.Stderr, "[%s] %s %v prefix=%d paths=%d asserts=%d/%d unknown=%d vio=%d ends=%v %.1fs %s\n", q.unit.Name, r.Harness, r.Sets, len(q.job.Prefix), r.Paths, r.Discharged, r.Asserts, r.Unknown, len(r.Violations), r.Ends, r.WallS, r.Err)
	}
	s.cond.Broadcast()
}

type workerProc struct {
	key string
	cmd *exec.Cmd
	in  io.WriteCloser
	out *bufio.Reader
}

func startWorker(self string, u *Unit) (*workerProc, error) {
	dir := u.Dir
	if dir == "" {
		dir = repoRoot()
	} else {
		dir = harnessPath(dir)
	}
	tags := u.Tags
	if tags == "" {
		tags = "purego,verif,math_big_pure_go"
	}
	var ovs []string
	for _, o := range u.Overlay {
		ovs = append(ovs, harnessPath(o))
	}
	cmd := exec.Command(self, "worker", "-dir", dir, "-pkg", u.Pkg, "-overlay", strings.Join(ovs, ","), "-tags", tags)
	cmd.Env = append(os.Environ(), "GOMEMLIMIT=3GiB", "GOMAXPROCS=4", "GOFLAGS=-mod=mod", "GOPROXY=off", "GOSUMDB=off", "GOTOOLCHAIN=local")
	cmd.Stderr = os.Stderr
	in, _ := cmd.StdinPipe()
	outp, _ := cmd.StdoutPipe()
	if err := cmd.Start(); err != nil {
		return nil, err
	}
	w := &workerProc{key: unitKey(u), cmd: cmd, in: in, out: bufio.NewReaderSize(outp, 1<<22)}
	// first line: load status
	line, err := w.out.ReadBytes('\n')
	if err != nil {
		w.kill()
		return nil, fmt.Errorf("worker failed to start: %v", err)
	}
	var r Result
	json.Unmarshal(line, &r)
	if r.Err != "" {
		w.kill()
		return nil, fmt.Errorf("%s", r.Err)
	}
	return w, nil
}

func (w *workerProc) kill() {
	w.in.Close()
	w.cmd.Process.Kill()
	w.cmd.Wait()
}

func (w *workerProc) run(j *Job) (*Result, error) {
	b, _ := json.Marshal(j)
	b = append(b, '\n')
	if _, err := w.in.Write(b); err != nil {
		return nil, err
	}
	type res struct {
		line []byte
		err  error
	}
	ch := make(chan res, 1)
	go func() {
		line, err := w.out.ReadBytes('\n')
		ch <- res{line, err}
	}()
	limit := time.Duration(j.DeadlineS+120) * time.Second
	select {
	case x := <-ch:
		if x.err != nil {
			return nil, fmt.Errorf("worker died: %v", x.err)
		}
		var r Result
		if err := json.Unmarshal(x.line, &r); err != nil {
			return nil, fmt.Errorf("bad result: %v", err)
		}
		return &r, nil
	case <-time.After(limit):
		return nil, fmt.Errorf("worker did not answer within %v (job deadline %vs): killed", limit, j.DeadlineS)
	}
}

func unitKey(u *Unit) string {
	return u.Dir + "|" + u.Pkg + "|" + strings.Join(u.Overlay, ",") + "|" + u.Tags
}

// repoRoot is /repo; VF_REPO redirects a run to a scratch worktree (used to try seeded changes without touching /repo)
func repoRoot() string {
	if r := os.Getenv("VF_REPO"); r != "" {
		return r
	}
	return "/repo"
}

// harnessPath resolves a path of a spec (unit dir, overlay dir) relative to /verif. Under VF_REPO the external harness
// module (hmod, whose go.mod points at /repo) is used through a scratch copy whose replace directive points at the
// scratch worktree instead.
var hmodCopy string

func harnessPath(p string) string {
	if !filepath.IsAbs(p) {
		p = filepath.Join(verifRoot(), p)
	}
	r := os.Getenv("VF_REPO")
	hm := filepath.Join(verifRoot(), "hmod")
	if r == "" || !(p == hm || strings.HasPrefix(p, hm+"/")) {
		return p
	}
	if hmodCopy == "" {
		hmodCopy = strings.TrimRight(r, "/") + ".hmod"
		os.RemoveAll(hmodCopy)
		filepath.Walk(hm, func(path string, info os.FileInfo, err error) error {
			if err != nil {
				return nil
			}
			dst := filepath.Join(hmodCopy, strings.TrimPrefix(path, hm))
			if info.IsDir() {
				os.MkdirAll(dst, 0o755)
				return nil
			}
			b, _ := os.ReadFile(path)
			if filepath.Base(path) == "go.mod" {
				b = []byte(strings.ReplaceAll(string(b), "=> /repo", "=> "+r))
			}
			os.WriteFile(dst, b, 0o644)
			return nil
		})
	}
	return hmodCopy + strings.TrimPrefix(p, hm)
}

func verifRoot() string {
	if r := os.Getenv("VERIF_ROOT"); r != "" {
		return r
	}
	return "/verif"
}

func (s *sched) workerLoop(self string, wg *sync.WaitGroup) {
	defer wg.Done()
	var w *workerProc
	defer func() {
		if w != nil {
			w.kill()
		}
	}()
	key := ""
	for {
		q := s.take(key)
		if q == nil {
			return
		}
		if w == nil || w.key != q.key {
			if w != nil {
				w.kill()
				w = nil
			}
			nw, err := startWorker(self, q.unit)
			if err != nil {
				s.done(q, &Result{ID: q.job.ID, Harness: q.job.Harness, Sets: q.job.Sets, Err: err.Error(), Ends: map[string]int{}})
				continue
			}
			w = nw
			key = q.key
		}
		r, err := w.run(q.job)
		if err != nil {
			w.kill()
			w = nil
			r = &Result{ID: q.job.ID, Harness: q.job.Harness, Sets: q.job.Sets, Err: err.Error(), Ends: map[string]int{}}
		}
		s.done(q, r)
	}
}

// ---------- the check command ----------

type KnownFinding struct {
	ID       string `json:"id"`
	Property string `json:"property"`
	Status   string `json:"status"` // open | fixed
	What     string `json:"what"`
	Region   string `json:"region"`
	Example  string `json:"example"`
	Commit   string `json:"commit,omitempty"`
}

func loadKnown() map[string]KnownFinding {
	res := map[string]KnownFinding{}
	b, err := os.ReadFile(filepath.Join(verifRoot(), "known_findings.json"))
	if err != nil {
		return res
	}
	var f struct {
		Findings []KnownFinding `json:"findings"`
	}
	if json.Unmarshal(b, &f) != nil {
		return res
	}
	for _, k := range f.Findings {
		res[k.ID] = k
	}
	return res
}

func checkMain(args []string) int {
	t0 := time.Now()
	if len(args) < 1 {
		fmt.Fprintln(os.Stderr, "usage: vf check <ID> [--tier quick|thorough] [--jobs N] [--unit name] [-v]")
		return 2
	}
	id := args[0]
	tier := os.Getenv("VERIF_TIER")
	if tier == "" {
		tier = "quick"
	}
	jobs := 16
	verbose := false
	onlyUnit := ""
	noEvidence := false
	for i := 1; i < len(args); i++ {
		switch args[i] {
		case "--tier":
			i++
			tier = args[i]
		case "--jobs":
			i++
			jobs, _ = strconv.Atoi(args[i])
		case "--unit":
			i++
			onlyUnit = args[i]
			noEvidence = true
		case "-v":
			verbose = true
		case "--no-evidence":
			noEvidence = true
		}
	}
	seed := 0
	if s := os.Getenv("VERIF_SEED"); s != "" {
		seed, _ = strconv.Atoi(s)
	}
	specPath := filepath.Join(verifRoot(), "spec", id+".json")
	b, err := os.ReadFile(specPath)
	if err != nil {
		fmt.Fprintln(os.Stderr, "cannot read spec:", err)
		return 2
	}
	var spec Spec
	if err := json.Unmarshal(b, &spec); err != nil {
		fmt.Fprintln(os.Stderr, "bad spec:", err)
		return 2
	}
	self, _ := os.Executable()
	s := &sched{aggs: map[string]*unitAgg{}, tier: tier, verbose: verbose}
	s.cond = sync.NewCond(&s.mu)
	s.mu.Lock()
	for ui := range spec.Units {
		u := &spec.Units[ui]
		if !u.inTier(tier) || (onlyUnit != "" && !strings.HasPrefix(u.Name, onlyUnit)) {
			continue
		}
		assigns, err := u.expand(tier)
		if err != nil {
			fmt.Fprintln(os.Stderr, err)
			return 2
		}
		a := &unitAgg{unit: u}
		s.aggs[u.Name] = a
		s.order = append(s.order, u.Name)
		for _, as := range assigns {
			j := &Job{Unit: u.Name, Harness: u.Harness, Sets: as, MaxSteps: u.MaxSteps, MaxDepth: u.MaxDepth, TimeoutMs: u.TimeoutMs, NoInit: u.NoInit, InitPkgs: u.InitPkgs, Warm: u.Warm, MaxConc: u.MaxConc, ConcRet: u.ConcRet, HangIsBug: u.HangIsBug}
			j.MaxPaths, _ = tierVal(u.MaxPaths, tier)
			j.Frontier, _ = tierVal(u.Split, tier)
			j.DeadlineS, _ = tierVal(u.DeadlineS, tier)
			if j.DeadlineS == 0 { // no job may run away: an exceeded deadline ends the job as TIMEBUDGET (inconclusive)
				j.DeadlineS = 900
				if tier == "thorough" {
					j.DeadlineS = 7200
				}
			}
			w := u.Weight
			if v, ok := as["vfLen"]; ok {
				w = w*100 + v
			}
			s.add(&qJob{job: j, unit: u, key: unitKey(u), weight: w})
			a.jobs++
		}
	}
	n := s.outstanding
	s.mu.Unlock()
	if n == 0 {
		fmt.Fprintln(os.Stderr, "no units for tier", tier)
		return 2
	}
	if jobs > n && n > 0 {
		// frontier jobs multiply later; keep all slots when any unit splits
		split := false
		for _, name := range s.order {
			if v, _ := tierVal(s.aggs[name].unit.Split, tier); v > 0 {
				split = true
			}
		}
		if !split {
			jobs = n
		}
	}
	var wg sync.WaitGroup
	for i := 0; i < jobs; i++ {
		wg.Add(1)
		go s.workerLoop(self, &wg)
	}
	wg.Wait()
	return conclude(&spec, s, tier, seed, t0, noEvidence)
}

type unitReport struct {
	Name       string         `json:"unit"`
	Desc       string         `json:"desc,omitempty"`
	Harness    string         `json:"harness"`
	Pkg        string         `json:"package"`
	Bounds     map[string]any `json:"bounds"`
	Jobs       int            `json:"jobs"`
	Paths      int            `json:"paths"`
	Decisions  int            `json:"decisions"`
	Asserts    int            `json:"assertions_evaluated"`
	Discharged int            `json:"assertions_discharged"`
	Queries    int            `json:"solver_queries"`
	Sat        int            `json:"sat"`
	Unsat      int            `json:"unsat"`
	Unknown    int            `json:"unknown"`
	SolverS    float64        `json:"solver_s"`
	CPUS       float64        `json:"cpu_s"`
	Ends       map[string]int `json:"path_ends"`
	Covers     map[string]int `json:"cover_points"`
	Funcs      int            `json:"functions_executed"`
	Stubs      []string       `json:"stubs_hit,omitempty"`
	Incon      []string       `json:"inconclusive,omitempty"`
	Violations int            `json:"violations"`
	Known      map[string]int `json:"known_findings_hit,omitempty"`
	MaxAlloc   int            `json:"max_allocation_bytes,omitempty"`
	BugHunt    bool           `json:"bug_hunting_only,omitempty"`
}

func conclude(spec *Spec, s *sched, tier string, seed int, t0 time.Time, noEvidence bool) int {
	known := loadKnown()
	exit := 0
	var reports []unitReport
	var samples []any
	funcs := map[string]int{}
	stubsAll := map[string]int{}
	totPaths, totDec, totQueries, totDischarged, totSolverObl := 0, 0, 0, 0, 0
	var solverS float64
	var inconclusive []string
	var machinery []string
	type vioOut struct {
		rec   vioRec
		known bool
	}
	var confirmed []string
	knownLines := map[string]string{}
	replays := 0
	for _, name := range s.order {
		a := s.aggs[name]
		u := a.unit
		rep := unitReport{Name: u.Name, Desc: u.Desc, Harness: u.Harness, Pkg: u.Pkg, Bounds: map[string]any{}, Jobs: len(a.results), Ends: map[string]int{}, Covers: map[string]int{}, Known: map[string]int{}, BugHunt: u.BudgetOK}
		for g, tv := range u.Grid {
			if raw, ok := tierVal(tv, tier); ok {
				vals, _ := parseValues(raw)
				rep.Bounds[g] = compactInts(vals)
			}
		}
		if v, ok := tierVal(u.MaxPaths, tier); ok && v > 0 {
			rep.Bounds["max_paths_per_job"] = v
		}
		ufuncs := map[string]bool{}
		ustubs := map[string]bool{}
		for _, r := range a.results {
			rep.Paths += r.Paths
			rep.Decisions += r.Decisions
			rep.Asserts += r.Asserts
			rep.Discharged += r.Discharged
			rep.Queries += r.Queries
			rep.Sat += r.Sat
			rep.Unsat += r.Unsat
			rep.Unknown += r.Unknown + r.SolverUnknown
			rep.SolverS += r.SolverS
			rep.CPUS += r.WallS
			if r.MaxAlloc > rep.MaxAlloc {
				rep.MaxAlloc = r.MaxAlloc
			}
			for k, v := range r.Ends {
				rep.Ends[k] += v
			}
			for k, v := range r.Covers {
				rep.Covers[k] += v
			}
			for k, v := range r.Funcs {
				funcs[k] += v
				ufuncs[k] = true
			}
			for k, v := range r.Stubs {
				stubsAll[k] += v
				ustubs[k] = true
			}
			for k, v := range r.KnownHit {
				rep.Known[k] += v
			}
			if len(samples) < 40 && len(r.Samples) > 0 && len(r.Prefix()) == 0 {
				samples = append(samples, map[string]any{"unit": u.Name, "harness": r.Harness, "sets": r.Sets, "path": r.Samples[0]})
			}
		}
		rep.Funcs = len(ufuncs)
		for k := range ustubs {
			rep.Stubs = append(rep.Stubs, k)
		}
		sort.Strings(rep.Stubs)
		// inconclusive conditions
		for _, e := range a.errs {
			rep.Incon = append(rep.Incon, "engine error: "+e)
			machinery = append(machinery, u.Name+": "+e)
		}
		if rep.Unknown > 0 {
			rep.Incon = append(rep.Incon, fmt.Sprintf("%d solver answers unknown", rep.Unknown))
		}
		for _, st := range []string{"BUDGET", "UNSUPPORTED", "PATHBUDGET", "TIMEBUDGET", "UNKNOWN"} {
			if rep.Ends[st] > 0 {
				if u.BudgetOK && (st == "PATHBUDGET" || st == "TIMEBUDGET") {
					continue
				}
				if u.HangIsBug && st == "BUDGET" {
					continue // reported as a violation candidate and replayed natively
				}
				msg := fmt.Sprintf("%d paths ended %s", rep.Ends[st], st)
				for _, r := range a.results {
					if m, ok := r.EndSamples[st]; ok {
						msg += " (e.g. " + m + ")"
						break
					}
				}
				rep.Incon = append(rep.Incon, msg)
			}
		}
		if rep.Ends["DONE"] == 0 {
			rep.Incon = append(rep.Incon, "vacuous: no feasible path reaches the end of the harness")
		}
		for _, c := range u.Covers {
			if rep.Covers[c] == 0 {
				rep.Incon = append(rep.Incon, "vacuous: cover point "+c+" not reached")
			}
		}
		// violations: group by (kind,id,known), replay the first witness of each group
		groups := map[string][]vioRec{}
		var gorder []string
		for _, v := range a.violations {
			k := v.v.Kind + "|" + v.v.ID + "|" + v.v.Known
			if _, ok := groups[k]; !ok {
				gorder = append(gorder, k)
			}
			groups[k] = append(groups[k], v)
		}
		sort.Strings(gorder)
		for _, k := range gorder {
			g := groups[k]
			v := g[0]
			kf, isKnown := known[v.v.Known]
			if v.v.Known != "" && isKnown && kf.Status == "open" && kf.Property == spec.Property {
				if _, dup := knownLines[kf.ID]; !dup {
					knownLines[kf.ID] = fmt.Sprintf("KNOWN-FINDING: property=%s %s: %s (unit %s, %s %s; witness %s)", spec.Property, kf.ID, kf.What, u.Name, v.v.Kind, v.v.ID, strings.TrimSpace(witnessStr(v.v.Witness)))
				}
				continue
			}
			rep.Violations++
			path, res := replayViolation(spec.Property, v)
			replays++
			switch res.verdict {
			case "confirmed":
				confirmed = append(confirmed, fmt.Sprintf("VIOLATION property=%s replay=%s", spec.Property, path))
				fmt.Printf("  unit=%s kind=%s id=%s %s sets=%v witness=%s\n  native: %s\n", u.Name, v.v.Kind, v.v.ID, v.v.Msg, v.sets, strings.TrimSpace(witnessStr(v.v.Witness)), res.detail)
				seen := map[string]bool{}
				for _, o := range g[1:] {
					k := fmt.Sprint(o.sets)
					if !seen[k] && len(seen) < 12 {
						seen[k] = true
						fmt.Printf("    also: sets=%v witness=%s\n", o.sets, strings.TrimSpace(witnessStr(o.v.Witness)))
					}
				}
			case "modelbug":
				machinery = append(machinery, fmt.Sprintf("%s: reference model disagrees with the real oracle on %s (%s)", u.Name, v.v.ID, res.detail))
			default:
				if u.EnvOK && v.v.EnvNondets > 0 && res.verdict == "unconfirmed" {
					confirmed = append(confirmed, fmt.Sprintf("VIOLATION property=%s replay=%s", spec.Property, path))
					fmt.Printf("  unit=%s kind=%s id=%s %s sets=%v\n  environment-dependent counterexample (%d environment choices: stale snapshots / pool hand-backs on decision path %v); a sequential native replay cannot reproduce it\n", u.Name, v.v.Kind, v.v.ID, v.v.Msg, v.sets, v.v.EnvNondets, v.v.Prefix)
					break
				}
				machinery = append(machinery, fmt.Sprintf("%s: counterexample for %s %s did not reproduce natively (%s); replay=%s", u.Name, v.v.Kind, v.v.ID, res.detail, path))
			}
		}
		for _, i := range rep.Incon {
			inconclusive = append(inconclusive, u.Name+": "+i)
		}
		totPaths += rep.Paths
		totDec += rep.Decisions
		totQueries += rep.Queries
		totDischarged += rep.Discharged
		totSolverObl += rep.Unsat
		solverS += rep.SolverS
		reports = append(reports, rep)
	}
	// known findings that are listed open for this property but did not show
	for _, kf := range known {
		if kf.Property == spec.Property && kf.Status == "open" {
			if _, ok := knownLines[kf.ID]; !ok {
				fmt.Printf("NOTE: known finding %s (%s) was not reproduced by this run\n", kf.ID, kf.What)
			}
		}
	}
	var kl []string
	for _, l := range knownLines {
		kl = append(kl, l)
	}
	sort.Strings(kl)
	for _, l := range kl {
		fmt.Println(l)
	}
	for _, l := range confirmed {
		fmt.Println(l)
	}
	switch {
	case len(confirmed) > 0:
		exit = 1
	case len(machinery) > 0:
		exit = 2
	case len(inconclusive) > 0:
		exit = 3
	}
	for _, m := range machinery {
		fmt.Println("MACHINERY:", m)
	}
	for _, m := range inconclusive {
		fmt.Println("INCONCLUSIVE:", m)
	}
	wall := time.Since(t0).Seconds()
	fmt.Printf("check %s tier=%s units=%d paths=%d decisions=%d queries=%d discharged=%d solver=%.1fs wall=%.1fs exit=%d\n", spec.Property, tier, len(reports), totPaths, totDec, totQueries, totDischarged, solverS, wall, exit)
	if !noEvidence {
		writeEvidence(spec, tier, seed, reports, samples, funcs, stubsAll, totPaths, totDec, totQueries, totSolverObl, totDischarged, solverS, wall, len(confirmed), replays, kl, inconclusive, machinery)
	}
	return exit
}

func (r *Result) Prefix() []int { return nil }

func compactInts(v []int) string {
	if len(v) == 0 {
		return ""
	}
	var parts []string
	i := 0
	for i < len(v) {
		j := i
		for j+1 < len(v) && v[j+1] == v[j]+1 {
			j++
		}
		if j > i {
			parts = append(parts, fmt.Sprintf("%d..%d", v[i], v[j]))
		} else {
			parts = append(parts, strconv.Itoa(v[i]))
		}
		i = j + 1
	}
	return strings.Join(parts, ",")
}

func writeEvidence(spec *Spec, tier string, seed int, reports []unitReport, samples []any, funcs, stubs map[string]int, paths, dec, queries, solverObl, discharged int, solverS, wall float64, violations, replays int, knownLines, incon, mach []string) {
	type fn struct {
		Name  string `json:"name"`
		Calls int    `json:"calls"`
	}
	var fl []fn
	for k, v := range funcs {
		fl = append(fl, fn{k, v})
	}
	sort.Slice(fl, func(i, j int) bool { return fl[i].Name < fl[j].Name })
	var sl []string
	for k := range stubs {
		sl = append(sl, k)
	}
	sort.Strings(sl)
	if len(samples) == 0 {
		samples = append(samples, "no path completed")
	}
	level := spec.Level
	if level == "" {
		level = "model_checking"
	}
	cov := map[string]any{
		"states":                        max(paths, 0),
		"transitions":                   max(dec, 0),
		"traces_validated_against_impl": replays,
		"samples":                       samples,
		"evaluations":                   queries,
		"distinct_nontrivial":           solverObl,
		"rule":                          "states = feasible paths explored to their end by the symbolic executor over the real SSA of /repo; transitions = symbolic decisions taken; evaluations = solver queries; distinct_nontrivial = queries answered unsat (assertion obligations and infeasible branch sides refuted for all inputs of a path); every path is a distinct input class",
		"obligations_discharged":        discharged,
		"solver":                        solverBin() + " (incremental, one process per job)",
		"solver_seconds":                solverS,
		"units":                         reports,
		"functions_encoded":             fl,
		"stubs_hit":                     sl,
		"known_findings":                knownLines,
		"inconclusive":                  incon,
		"machinery_errors":              mach,
		"outside_claim":                 spec.Outside,
		"exhaustive":                    false,
		"explanation":                   "bounded symbolic execution of the repository's own functions (go/ssa built from /repo's working tree at run time) with an SMT solver deciding every assertion and branch feasibility; bounds per unit are listed under units[].bounds",
	}
	ev := map[string]any{
		"property_id": spec.Property,
		"tier":        tier,
		"seed":        seed,
		"level":       level,
		"coverage":    cov,
		"assumptions": spec.Assumptions,
		"wall_s":      wall,
		"violations":  violations,
	}
	b, _ := json.MarshalIndent(ev, "", " ")
	os.MkdirAll(filepath.Join(verifRoot(), "evidence"), 0o755)
	os.WriteFile(filepath.Join(verifRoot(), "evidence", spec.Property+".json"), append(b, '\n'), 0o644)
}
