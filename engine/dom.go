package main

// Byte-domain filter: for conditions that mention exactly one 8-bit nondet variable, keep the set of still-possible
// values implied by the single-variable conjuncts of the path condition. The set over-approximates (multi-variable
// constraints are ignored), so it is only used to prove a branch side infeasible; feasibility is still left to the solver.

type bset [4]uint64

func (b *bset) has(i int) bool { return b[i>>6]&(1<<(uint(i)&63)) != 0 }
func (b *bset) set(i int)      { b[i>>6] |= 1 << (uint(i) & 63) }
func (b *bset) empty() bool    { return b[0]|b[1]|b[2]|b[3] == 0 }

var fullSet = bset{^uint64(0), ^uint64(0), ^uint64(0), ^uint64(0)}

var multiVar = &Term{}
var varMemo = map[*Term]*Term{}

// soleVar returns the single variable of t, nil if t has none, multiVar if more than one (or a non-byte var).
func soleVar(t *Term) *Term {
	if t.op == OConst {
		return nil
	}
	if t.op == OVar {
		if t.w == 8 {
			return t
		}
		return multiVar
	}
	if v, ok := varMemo[t]; ok {
		return v
	}
	var r *Term
	for _, k := range [3]*Term{t.a, t.b, t.d} {
		if k == nil {
			continue
		}
		v := soleVar(k)
		if v == multiVar {
			r = multiVar
			break
		}
		if v != nil {
			if r == nil {
				r = v
			} else if r != v {
				r = multiVar
				break
			}
		}
	}
	varMemo[t] = r
	return r
}

func (m *Machine) domOf(v *Term) bset {
	if d, ok := m.dom[v]; ok {
		return d
	}
	return fullSet
}

// trueSet returns the subset of v's domain where c holds.
type tsKey struct {
	c *Term
	d bset
}
type tsVal struct {
	ts        bset
	all, none bool
}

var tsMemo = map[tsKey]tsVal{}

func (m *Machine) trueSet(c, v *Term) (ts bset, all bool, none bool) {
	d := m.domOf(v)
	if r, ok := tsMemo[tsKey{c, d}]; ok {
		return r.ts, r.all, r.none
	}
	defer func() { tsMemo[tsKey{c, d}] = tsVal{ts, all, none} }()
	mod := map[string]uint64{}
	all, none = true, true
	for x := 0; x < 256; x++ {
		if !d.has(x) {
			continue
		}
		mod[v.name] = uint64(x)
		if Eval(c, mod, map[*Term]uint64{}) == 1 {
			ts.set(x)
			none = false
		} else {
			all = false
		}
	}
	return
}

func (m *Machine) domAssume(c *Term) {
	if c.op == OAnd {
		m.domAssume(c.a)
		m.domAssume(c.b)
		return
	}
	v := soleVar(c)
	if v == nil || v == multiVar {
		return
	}
	ts, _, _ := m.trueSet(c, v)
	m.dom[v] = ts
}
