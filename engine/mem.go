package main

import (
	"fmt"
	"go/types"
)

// Ref is a non-byte value stored in memory as an 8-byte pointer-like word.
type Ref struct {
	v Val // Ptr, *Closure, *MapObj, typeDesc
}

type typeDesc struct{ t types.Type }

type cell struct {
	t   *Term // w=8, when ref == nil
	ref *Ref
	k   uint8
}

type Obj struct {
	id     int
	size   int
	cells  []cell
	ro     bool
	uninit bool
	name   string
	snap   bool
	dirty  bool
	saved  []cell
	frozen bool
}

var zero8 = Const(8, 0)

type Heap struct {
	next      int
	allocs    []int // sizes
	objs      []*Obj
	maps      []*MapObj
	mapOf     map[*Obj]*MapObj
	typeDescs map[string]*Ref
}

func (h *Heap) New(size int, name string) *Obj {
	o := &Obj{id: h.next, size: size, cells: make([]cell, size), name: name}
	h.next++
	for i := range o.cells {
		o.cells[i].t = zero8
	}
	h.allocs = append(h.allocs, size)
	h.objs = append(h.objs, o)
	return o
}

var sizes = types.SizesFor("gc", "amd64")

func sizeof(t types.Type) int { return int(sizes.Sizeof(t)) }

func (m *Machine) checkAccess(p Ptr, n int, what string) {
	if p.obj == nil {
		endPath("PANIC", "nil pointer dereference (%s)", what)
	}
	if p.obj.uninit && (what == "load") {
		endPath("UNSUPPORTED", "read of global %s whose package init was not executed", p.obj.name)
	}
	if p.off < 0 || p.off+n > p.obj.size {
		endPath("MEMSAFETY", "%s of %d bytes at o%d(%s)+%d outside object of size %d", what, n, p.obj.id, p.obj.name, p.off, p.obj.size)
	}
}

func (m *Machine) loadBytes(p Ptr, n int) *Term {
	m.checkAccess(p, n, "load")
	// little endian: byte 0 is least significant
	var t *Term
	for i := 0; i < n; i++ {
		c := p.obj.cells[p.off+i]
		ct := c.t
		if c.ref != nil {
			// the numeric value of an address is arbitrary: model its bytes as environment nondets (one per pointer
			// value and byte position), 8-byte aligned for objects of at least 8 bytes
			ct = m.addrByte(c.ref, int(c.k))
		}
		if t == nil {
			t = ct
		} else {
			t = Concat(ct, t)
		}
	}
	return t
}

func (m *Machine) storeBytes(p Ptr, n int, v *Term) {
	m.checkAccess(p, n, "store")
	if p.obj.ro {
		endPath("MEMSAFETY", "write to read-only object o%d(%s)", p.obj.id, p.obj.name)
	}
	if int(v.w) != n*8 {
		panic(fmt.Sprintf("storeBytes width %d vs %d bytes", v.w, n))
	}
	m.touch(p.obj)
	for i := 0; i < n; i++ {
		p.obj.cells[p.off+i] = cell{t: Extract(v, uint8(i*8+7), uint8(i*8))}
	}
}

func (m *Machine) storeRef(p Ptr, r *Ref) {
	m.checkAccess(p, 8, "store")
	if p.obj.ro {
		endPath("MEMSAFETY", "write to read-only object o%d", p.obj.id)
	}
	m.touch(p.obj)
	for i := 0; i < 8; i++ {
		if r == nil {
			p.obj.cells[p.off+i] = cell{t: zero8}
		} else {
			p.obj.cells[p.off+i] = cell{ref: r, k: uint8(i)}
		}
	}
}

// loadWord returns (*Ref or nil, isZero). If the 8 bytes are plain data it returns data term.
func (m *Machine) loadWord(p Ptr) (*Ref, *Term) {
	m.checkAccess(p, 8, "load")
	c0 := p.obj.cells[p.off]
	if c0.ref != nil {
		for i := 0; i < 8; i++ {
			c := p.obj.cells[p.off+i]
			if c.ref != c0.ref || c.k != uint8(i) {
				endPath("MEMSAFETY", "torn pointer load at o%d+%d", p.obj.id, p.off)
			}
		}
		return c0.ref, nil
	}
	return nil, m.loadBytes(p, 8)
}

func (m *Machine) loadPtrLike(p Ptr) Val {
	r, t := m.loadWord(p)
	if r != nil {
		return r.v
	}
	if t.IsConst() && t.c == 0 {
		return nil
	}
	endPath("MEMSAFETY", "wild pointer: loading pointer from non-pointer bytes at o%d(%s)+%d", p.obj.id, p.obj.name, p.off)
	return nil
}

func isDirectIface(t types.Type) bool {
	switch u := t.Underlying().(type) {
	case *types.Pointer, *types.Map, *types.Chan, *types.Signature:
		return true
	case *types.Basic:
		return u.Kind() == types.UnsafePointer
	case *types.Array:
		return u.Len() == 1 && isDirectIface(u.Elem())
	case *types.Struct:
		return u.NumFields() == 1 && isDirectIface(u.Field(0).Type())
	}
	return false
}

func (m *Machine) typeDescRef(t types.Type) *Ref {
	key := types.TypeString(t, nil)
	if r, ok := m.heap.typeDescs[key]; ok {
		return r
	}
	r := &Ref{v: typeDesc{t}}
	m.heap.typeDescs[key] = r
	return r
}

func basicWidth(b *types.Basic) uint8 {
	switch b.Kind() {
	case types.Bool, types.UntypedBool:
		return 0
	case types.Int8, types.Uint8:
		return 8
	case types.Int16, types.Uint16:
		return 16
	case types.Int32, types.Uint32, types.Float32, types.UntypedRune:
		return 32
	case types.Int, types.Uint, types.Int64, types.Uint64, types.Uintptr, types.Float64, types.UntypedInt, types.UntypedFloat:
		return 64
	}
	return 255
}

// Load reads a value of type t from memory at p.
func (m *Machine) Load(p Ptr, t types.Type) Val {
	switch u := t.Underlying().(type) {
	case *types.Basic:
		switch {
		case u.Kind() == types.String:
			d := m.loadPtrLike(p)
			n := m.loadBytes(Ptr{p.obj, p.off + 8}, 8)
			nn := m.concInt(n, "string length")
			if d == nil {
				return Str{Ptr{}, nn}
			}
			return Str{m.asPtr(d), nn}
		case u.Kind() == types.UnsafePointer:
			d := m.loadPtrLike(p)
			if d == nil {
				return Ptr{}
			}
			return m.asPtr(d)
		case u.Kind() == types.Uintptr:
			r, tt := m.loadWord(p)
			if r != nil {
				if pp, ok := r.v.(Ptr); ok {
					return PtrInt{pp}
				}
				endPath("UNSUPPORTED", "uintptr load of non-pointer ref")
			}
			return tt
		case u.Kind() == types.Bool:
			b := m.loadBytes(p, 1)
			return Not(Eq(b, zero8))
		default:
			w := basicWidth(u)
			if w == 255 {
				endPath("UNSUPPORTED", "load of basic %s", u)
			}
			return m.loadBytes(p, int(w)/8)
		}
	case *types.Pointer:
		d := m.loadPtrLike(p)
		if d == nil {
			return Ptr{}
		}
		return m.asPtr(d)
	case *types.Slice:
		d := m.loadPtrLike(p)
		n := m.concInt(m.loadBytes(Ptr{p.obj, p.off + 8}, 8), "slice len")
		c := m.concInt(m.loadBytes(Ptr{p.obj, p.off + 16}, 8), "slice cap")
		if d == nil {
			return Slice{Ptr{}, n, c}
		}
		return Slice{m.asPtr(d), n, c}
	case *types.Struct:
		offs := sizes.Offsetsof(fieldsOf(u))
		a := make(Agg, u.NumFields())
		for i := range a {
			a[i] = m.Load(Ptr{p.obj, p.off + int(offs[i])}, u.Field(i).Type())
		}
		return a
	case *types.Array:
		es := sizeof(u.Elem())
		a := make(Agg, u.Len())
		for i := range a {
			a[i] = m.Load(Ptr{p.obj, p.off + i*es}, u.Elem())
		}
		return a
	case *types.Interface:
		r, tt := m.loadWord(p)
		if r == nil {
			if tt.IsConst() && tt.c == 0 {
				return Iface{}
			}
			endPath("MEMSAFETY", "interface type word is garbage")
		}
		td, ok := r.v.(typeDesc)
		if !ok {
			endPath("MEMSAFETY", "interface type word is not a type descriptor")
		}
		dp := Ptr{p.obj, p.off + 8}
		if isDirectIface(td.t) {
			return Iface{td.t, m.Load(dp, td.t)}
		}
		d := m.loadPtrLike(dp)
		if d == nil {
			endPath("MEMSAFETY", "nil data word in non-direct interface")
		}
		return Iface{td.t, m.Load(m.asPtr(d), td.t)}
	case *types.Signature:
		d := m.loadPtrLike(p)
		if d == nil {
			return (*Closure)(nil)
		}
		if c, ok := d.(*Closure); ok {
			return c
		}
		endPath("MEMSAFETY", "func word is not a closure")
	case *types.Map:
		d := m.loadPtrLike(p)
		if d == nil {
			return (*MapObj)(nil)
		}
		if c, ok := d.(*MapObj); ok {
			return c
		}
		if p, ok := d.(Ptr); ok {
			if mo, ok := m.heap.mapOf[p.obj]; ok && p.off == 0 {
				return mo
			}
		}
		endPath("MEMSAFETY", "map word is not a map")
	}
	endPath("UNSUPPORTED", "load of type %s", t)
	return nil
}

func fieldsOf(s *types.Struct) []*types.Var {
	fs := make([]*types.Var, s.NumFields())
	for i := range fs {
		fs[i] = s.Field(i)
	}
	return fs
}

func (m *Machine) asPtr(d Val) Ptr {
	if p, ok := d.(Ptr); ok {
		return p
	}
	if td, ok := d.(typeDesc); ok {
		// the type word of an interface read as a plain pointer: it is the address of the type's descriptor, the same
		// object reflect.TypeOf hands out
		return Ptr{m.rtypeObj(td.t), 0}
	}
	endPath("MEMSAFETY", "pointer word holds %T", d)
	return Ptr{}
}

// Store writes v of type t at p.
func (m *Machine) Store(p Ptr, t types.Type, v Val) {
	switch u := t.Underlying().(type) {
	case *types.Basic:
		switch {
		case u.Kind() == types.String:
			s := v.(Str)
			m.storePtrVal(p, s.p)
			m.storeBytes(Ptr{p.obj, p.off + 8}, 8, Const(64, uint64(s.n)))
		case u.Kind() == types.UnsafePointer:
			m.storePtrVal(p, v.(Ptr))
		case u.Kind() == types.Uintptr:
			if pi, ok := v.(PtrInt); ok {
				m.storePtrVal(p, pi.p)
			} else {
				m.storeBytes(p, 8, v.(*Term))
			}
		case u.Kind() == types.Bool:
			m.storeBytes(p, 1, BoolToBV(8, v.(*Term)))
		default:
			w := basicWidth(u)
			if w == 255 {
				endPath("UNSUPPORTED", "store of basic %s", u)
			}
			m.storeBytes(p, int(w)/8, v.(*Term))
		}
	case *types.Pointer:
		m.storePtrVal(p, v.(Ptr))
	case *types.Slice:
		s := v.(Slice)
		m.storePtrVal(p, s.p)
		m.storeBytes(Ptr{p.obj, p.off + 8}, 8, Const(64, uint64(s.n)))
		m.storeBytes(Ptr{p.obj, p.off + 16}, 8, Const(64, uint64(s.c)))
	case *types.Struct:
		offs := sizes.Offsetsof(fieldsOf(u))
		a := v.(Agg)
		for i := range a {
			m.Store(Ptr{p.obj, p.off + int(offs[i])}, u.Field(i).Type(), a[i])
		}
	case *types.Array:
		es := sizeof(u.Elem())
		a := v.(Agg)
		for i := range a {
			m.Store(Ptr{p.obj, p.off + i*es}, u.Elem(), a[i])
		}
	case *types.Interface:
		iv := v.(Iface)
		if iv.t == nil {
			m.storeRef(p, nil)
			m.storeRef(Ptr{p.obj, p.off + 8}, nil)
			return
		}
		m.storeRef(p, m.typeDescRef(iv.t))
		dp := Ptr{p.obj, p.off + 8}
		if isDirectIface(iv.t) {
			m.Store(dp, iv.t, iv.v)
		} else {
			box := m.heap.New(sizeof(iv.t), "ifacebox:"+iv.t.String())
			m.Store(Ptr{box, 0}, iv.t, iv.v)
			m.storePtrVal(dp, Ptr{box, 0})
		}
	case *types.Signature:
		c := v.(*Closure)
		if c == nil {
			m.storeRef(p, nil)
		} else {
			m.storeRef(p, &Ref{v: c})
		}
	case *types.Map:
		c := v.(*MapObj)
		if c == nil {
			m.storeRef(p, nil)
		} else {
			m.storeRef(p, &Ref{v: Ptr{c.hdr, 0}})
		}
	default:
		endPath("UNSUPPORTED", "store of type %s", t)
	}
}

func (m *Machine) storePtrVal(p Ptr, v Ptr) {
	if v.obj == nil {
		m.storeRef(p, nil)
		return
	}
	m.storeRef(p, &Ref{v: v})
}

// zeroVal returns the zero register value of type t.
func (m *Machine) zeroVal(t types.Type) Val {
	switch u := t.Underlying().(type) {
	case *types.Basic:
		if u.Kind() == types.Invalid {
			return nil
		}
		switch {
		case u.Kind() == types.String || u.Kind() == types.UntypedString:
			return Str{}
		case u.Kind() == types.UnsafePointer || u.Kind() == types.UntypedNil:
			return Ptr{}
		case u.Kind() == types.Bool || u.Kind() == types.UntypedBool:
			return Bool(false)
		default:
			w := basicWidth(u)
			if w == 255 {
				endPath("UNSUPPORTED", "zero of %s", u)
			}
			return Const(w, 0)
		}
	case *types.Pointer:
		return Ptr{}
	case *types.Slice:
		return Slice{}
	case *types.Struct:
		a := make(Agg, u.NumFields())
		for i := range a {
			a[i] = m.zeroVal(u.Field(i).Type())
		}
		return a
	case *types.Array:
		a := make(Agg, u.Len())
		for i := range a {
			a[i] = m.zeroVal(u.Elem())
		}
		return a
	case *types.Interface:
		return Iface{}
	case *types.Signature:
		return (*Closure)(nil)
	case *types.Map:
		return (*MapObj)(nil)
	case *types.Tuple:
		a := make(Agg, u.Len())
		for i := range a {
			a[i] = m.zeroVal(u.At(i).Type())
		}
		return a
	}
	endPath("UNSUPPORTED", "zero of type %s", t)
	return nil
}

var _ = fmt.Sprint

func (m *Machine) addrByte(r *Ref, k int) *Term {
	bs, ok := m.addrBytes[r]
	if !ok {
		bs = new([8]*Term)
		m.addrBytes[r] = bs
	}
	if bs[k] == nil {
		bs[k] = m.newEnvNondet(8, "addr")
		if k == 0 {
			if p, ok := r.v.(Ptr); ok && p.obj != nil && p.obj.size >= 8 {
				m.assume(Eq(Bin(OBvAnd, bs[k], Const(8, 7)), Const(8, uint64(p.off&7))))
			}
		}
		if k == 7 {
			m.assume(Eq(bs[k], Const(8, 0))) // user-space addresses
		}
	}
	return bs[k]
}
