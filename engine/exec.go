package main

import (
	"fmt"
	"os"
	"sort"
	"time"
	"go/constant"
	"go/token"
	"go/types"
	"math"
	"strings"

	"golang.org/x/tools/go/ssa"
)

// SymPtr is the address of element idx (symbolic) of a constant table; only loads are supported.
type SymPtr struct {
	base  Ptr
	es, n int
	idx   *Term
}

type Violation struct {
	id    string
	kind  string
	msg   string
	model map[string]uint64
	path  []int
	known string
	wit   []uint64
	env   int
}

type pendingPath struct {
	prefix []int
	model  map[string]uint64
}

type Machine struct {
	ld     *loaded
	job    *Job
	prog   *ssa.Program
	solver *Solver

	// per-path state
	heap      *Heap
	globals   map[*ssa.Global]*Obj
	strObjs   map[string]*Obj
	pc        []*Term
	pcset     map[*Term]bool
	dom       map[*Term]bset
	nondets   []*Term
	nondetEnv []bool
	prefix    []int
	dec       int
	model     map[string]uint64
	steps     int
	depth     int
	covers    map[string]bool
	initDone  map[*ssa.Package]bool
	knownCur  string
	allocLim  int
	allocExplore int
	inExploreSplit bool
	maxAlloc  int
	poolMode  int
	cpuAll    bool
	poolPut   map[*Obj][]Val
	concPos   int
	ufOn      map[string]bool
	ufMemo    map[string]Val
	pathCalls map[string]int
	watch     map[string]bool
	pinned    map[*Term]uint64
	pinGen    int
	pevalMemo map[*Term]uint64
	pevalNeg  map[*Term]int
	passerts  []pendingAssert
	addrBytes map[*Ref]*[8]*Term
	locked    map[*Obj]bool
	concModel int
	pubHist   map[pubKey][]Val
	frozenObjs []*Obj
	frozenMaps []*MapObj
	onceDone  map[*Obj]bool
	lastArgs  map[string][]Val
	observed  []string

	// snapshot of the concrete prefix (package init + warm-up), restored per path through an undo log
	snap      *snapshot
	snapOff   bool
	dirtyObjs []*Obj
	dirtyMaps []*MapObj

	// cross-path
	pending     []pendingPath
	violations  []Violation
	vioSeen     map[string]int
	frontier    []FrontierItem
	stats       struct{ paths, forks, steps, asserts, assertUnsat, unknown, concretize, domDecided, decisions, cacheHits int }
	qcache      map[string]qcEntry
	concRet     map[string]bool
	endStatus   map[string]int
	endSamples  map[string]string
	allCovers   map[string]int
	funcsRun    map[string]int
	stubsHit    map[string]int
	assertIDs   map[string]int
	knownHit    map[string]int
	samples     []string
	obsSample   []string
	gMaxAlloc   int
	maxSteps    int
	maxDepth    int
	maxConc     int
	initPkgs    map[string]bool
	trace       bool
	rtypes      map[string]*Obj
	rtypeOf     map[*Obj]types.Type
	atomics     map[*Obj]Val
	mapIters    map[*Obj]*mapIterState
	lvl, common int
	decLevel    []int
	prevPrefix  []int
	lastPrefix  []int
	mergeChains bool
	sets        map[string]int
	deadline    time.Time
	curIns      ssa.Instruction
}

type snapshot struct {
	heapNext  int
	nObjs     int
	nMaps     int
	nAllocs   int
	globals   map[*ssa.Global]*Obj
	strObjs   map[string]*Obj
	rtypes    map[string]*Obj
	rtypeOf   map[*Obj]types.Type
	atomics   map[*Obj]Val
	typeDescs map[string]*Ref
	initDone  map[*ssa.Package]bool
	nondets   []*Term
	nondetEnv []bool
	steps     int
}

var defaultInitPkgs = []string{"unicode/utf8", "unicode/utf16", "io", "encoding/binary", "math/bits", "strconv", "unicode", "strings", "bytes", "sort",
	"encoding/base64", "math", "time",
	"github.com/segmentio/asm/ascii", "github.com/segmentio/asm/keyset", "github.com/segmentio/asm/base64", "github.com/segmentio/asm/internal/unsafebytes",
	"github.com/segmentio/asm/cpu", "github.com/segmentio/asm/cpu/x86", "github.com/segmentio/asm/cpu/arm", "github.com/segmentio/asm/cpu/arm64", "github.com/segmentio/asm/cpu/cpuid"}

var (
	dbgNoPcset = os.Getenv("VF_NOPCSET") != ""
	dbgNoDom   = os.Getenv("VF_NODOM") != ""
	dbgNoReuse = os.Getenv("VF_NOREUSE") != ""
	dbgNoMerge = os.Getenv("VF_NOMERGE") != ""
	dbgDec     = os.Getenv("VF_TRACEDEC") != ""
	dbgNoCache = os.Getenv("VF_NOCACHE") != ""
)

// packages whose globals may be read as zero values without running their init (CPU feature words: "no features")
var zeroOKPkgs = map[string]bool{"github.com/segmentio/asm/cpu": true, "internal/cpu": true, "golang.org/x/sys/cpu": true}

func NewMachine(ld *loaded, job *Job) *Machine {
	m := &Machine{ld: ld, job: job, prog: ld.prog, funcsRun: map[string]int{}, stubsHit: map[string]int{}, assertIDs: map[string]int{}, knownHit: map[string]int{}, vioSeen: map[string]int{}}
	m.maxSteps = job.MaxSteps
	if m.maxSteps == 0 {
		m.maxSteps = 4000000
	}
	m.maxDepth = job.MaxDepth
	if m.maxDepth == 0 {
		m.maxDepth = 5000
	}
	m.maxConc = job.MaxConc
	if m.maxConc == 0 {
		m.maxConc = 64
	}
	m.initPkgs = map[string]bool{ld.pkg.Pkg.Path(): true}
	for _, p := range defaultInitPkgs {
		m.initPkgs[p] = true
	}
	if job.NoInit {
		delete(m.initPkgs, ld.pkg.Pkg.Path())
	}
	for _, s := range job.InitPkgs {
		if strings.HasPrefix(s, "-") {
			delete(m.initPkgs, s[1:])
		} else {
			m.initPkgs[s] = true
		}
	}
	m.sets = job.Sets
	m.qcache = map[string]qcEntry{}
	m.concRet = map[string]bool{}
	for _, f := range job.ConcRet {
		m.concRet[f] = true
	}
	m.mergeChains = !dbgNoMerge
	if job.DeadlineS > 0 {
		m.deadline = time.Now().Add(time.Duration(job.DeadlineS * float64(time.Second)))
	}
	return m
}

type frame struct {
	fn     *ssa.Function
	locals map[ssa.Value]Val
	defers []func()
	result Val
}

func (m *Machine) resetPath() {
	m.pc = m.pc[:0]
	callStack = callStack[:0]
	m.pcset = map[*Term]bool{}
	m.dom = map[*Term]bset{}
	m.dec = 0
	m.depth = 0
	m.covers = map[string]bool{}
	m.knownCur = ""
	m.allocLim = 0
	m.allocExplore = 0
	m.maxAlloc = 0
	m.poolMode = 0
	m.cpuAll = false
	m.poolPut = map[*Obj][]Val{}
	m.concPos = 0
	m.ufOn = map[string]bool{}
	m.ufMemo = map[string]Val{}
	m.pathCalls = map[string]int{}
	m.watch = map[string]bool{}
	m.pinned = map[*Term]uint64{}
	m.pinGen = 0
	m.pevalMemo = map[*Term]uint64{}
	m.pevalNeg = map[*Term]int{}
	m.passerts = m.passerts[:0]
	m.addrBytes = map[*Ref]*[8]*Term{}
	m.locked = map[*Obj]bool{}
	m.concModel = 0
	m.pubHist = map[pubKey][]Val{}
	for _, o := range m.frozenObjs {
		o.frozen = false
	}
	m.frozenObjs = m.frozenObjs[:0]
	for _, mo := range m.frozenMaps {
		mo.frozen = false
	}
	m.frozenMaps = m.frozenMaps[:0]
	m.onceDone = map[*Obj]bool{}
	m.lastArgs = map[string][]Val{}
	m.observed = nil
	m.mapIters = map[*Obj]*mapIterState{}
	if m.snap != nil {
		s := m.snap
		for _, o := range m.dirtyObjs {
			copy(o.cells, o.saved)
			o.saved, o.dirty = nil, false
		}
		m.dirtyObjs = m.dirtyObjs[:0]
		for _, mo := range m.dirtyMaps {
			mo.entries = mo.saved
			mo.saved, mo.dirty = nil, false
		}
		m.dirtyMaps = m.dirtyMaps[:0]
		m.heap.next = s.heapNext
		for _, mo := range m.heap.maps[s.nMaps:] {
			delete(m.heap.mapOf, mo.hdr)
		}
		m.heap.maps = m.heap.maps[:s.nMaps]
		m.heap.objs = m.heap.objs[:s.nObjs]
		m.heap.allocs = m.heap.allocs[:s.nAllocs]
		m.heap.typeDescs = copyMap(s.typeDescs)
		m.globals = copyMap(s.globals)
		m.strObjs = copyMap(s.strObjs)
		m.rtypes = copyMap(s.rtypes)
		m.rtypeOf = copyMap(s.rtypeOf)
		m.atomics = copyMap(s.atomics)
		m.initDone = copyMap(s.initDone)
		m.nondets = append(m.nondets[:0], s.nondets...)
		m.nondetEnv = append(m.nondetEnv[:0], s.nondetEnv...)
		m.steps = s.steps
		return
	}
	m.heap = &Heap{typeDescs: map[string]*Ref{}}
	m.rtypes = map[string]*Obj{}
	m.rtypeOf = map[*Obj]types.Type{}
	m.atomics = map[*Obj]Val{}
	m.globals = map[*ssa.Global]*Obj{}
	m.strObjs = map[string]*Obj{}
	m.nondets = nil
	m.nondetEnv = nil
	m.steps = 0
	m.initDone = map[*ssa.Package]bool{}
}

func copyMap[K comparable, V any](a map[K]V) map[K]V {
	b := make(map[K]V, len(a)+8)
	for k, v := range a {
		b[k] = v
	}
	return b
}

// takeSnapshot freezes the heap after the concrete prefix (init + sets + warm-up). Only legal when that prefix made
// no symbolic decision and no assumption.
func (m *Machine) takeSnapshot() {
	if m.snapOff || m.dec != 0 || m.lvl != 0 {
		m.snapOff = true
		return
	}
	for _, o := range m.heap.objs {
		o.snap = true
	}
	for _, mo := range m.heap.maps {
		mo.snap = true
	}
	m.snap = &snapshot{heapNext: m.heap.next, nMaps: len(m.heap.maps), nObjs: len(m.heap.objs), nAllocs: len(m.heap.allocs), globals: copyMap(m.globals), strObjs: copyMap(m.strObjs),
		rtypes: copyMap(m.rtypes), rtypeOf: copyMap(m.rtypeOf), atomics: copyMap(m.atomics), typeDescs: copyMap(m.heap.typeDescs), initDone: copyMap(m.initDone),
		nondets: append([]*Term{}, m.nondets...), nondetEnv: append([]bool{}, m.nondetEnv...), steps: m.steps}
}

// touch must be called before any write to o's cells.
func (m *Machine) touch(o *Obj) {
	if o.frozen {
		endPath("MEMSAFETY", "write to object o%d(%s) after it was published through an atomic store (a concurrent reader may be using it)", o.id, o.name)
	}
	if o.snap && !o.dirty {
		o.saved = append([]cell(nil), o.cells...)
		o.dirty = true
		m.dirtyObjs = append(m.dirtyObjs, o)
	}
}

func (m *Machine) touchMap(mo *MapObj) {
	if mo.frozen {
		endPath("MEMSAFETY", "write to a map after it was published through an atomic store (a concurrent reader may be using it)")
	}
	if mo.snap && !mo.dirty {
		mo.saved = mo.entries
		mo.entries = append([]MapEntry(nil), mo.entries...)
		mo.dirty = true
		m.dirtyMaps = append(m.dirtyMaps, mo)
	}
}

// ---------- decisions ----------

func (m *Machine) evalModel(t *Term) uint64 {
	return Eval(t, m.model, map[*Term]uint64{})
}

// pin records facts of the form t == const (and Boolean literals) that the path condition contains syntactically.
func (m *Machine) pin(c *Term) {
	switch {
	case c.op == OEq && c.b.IsConst():
		m.pinned[c.a] = c.b.c
	case c.op == OEq && c.a.IsConst():
		m.pinned[c.b] = c.a.c
	case c.op == ONot:
		m.pinned[c.a] = 0
		if x := c.a; x.op == OOr { // not(a or b): both false
			m.pin(Not(x.a))
			m.pin(Not(x.b))
		}
	case c.op == OAnd:
		m.pin(c.a)
		m.pin(c.b)
	}
	if c.w == 0 && c.op != OConst {
		m.pinned[c] = 1
	}
	m.pinGen++
}

// peval evaluates t when its value is implied by the pinned facts alone (no solver). Sound: pinned facts are conjuncts
// of the path condition.
func (m *Machine) peval(t *Term) (uint64, bool) {
	if t.op == OConst {
		return t.c, true
	}
	if v, ok := m.pinned[t]; ok {
		return v, true
	}
	if t.op == OVar {
		return 0, false
	}
	if v, ok := m.pevalMemo[t]; ok {
		return v, true
	}
	if g, ok := m.pevalNeg[t]; ok && g == m.pinGen {
		return 0, false
	}
	v, ok := m.pevalOp(t)
	if ok {
		m.pevalMemo[t] = v
	} else {
		m.pevalNeg[t] = m.pinGen
	}
	return v, ok
}

func (m *Machine) pevalOp(t *Term) (uint64, bool) {
	switch t.op {
	case OIte:
		c, ok := m.peval(t.a)
		if !ok {
			x, ok1 := m.peval(t.b)
			y, ok2 := m.peval(t.d)
			if ok1 && ok2 && x == y {
				return x, true
			}
			return 0, false
		}
		if c != 0 {
			return m.peval(t.b)
		}
		return m.peval(t.d)
	case OAnd:
		x, ok1 := m.peval(t.a)
		y, ok2 := m.peval(t.b)
		if (ok1 && x == 0) || (ok2 && y == 0) {
			return 0, true
		}
		return x & y, ok1 && ok2
	case OOr:
		x, ok1 := m.peval(t.a)
		y, ok2 := m.peval(t.b)
		if (ok1 && x == 1) || (ok2 && y == 1) {
			return 1, true
		}
		return x | y, ok1 && ok2
	case OBvAnd:
		x, ok1 := m.peval(t.a)
		y, ok2 := m.peval(t.b)
		if (ok1 && x == 0) || (ok2 && y == 0) {
			return 0, true
		}
		return x & y, ok1 && ok2
	case OBvMul:
		x, ok1 := m.peval(t.a)
		y, ok2 := m.peval(t.b)
		if (ok1 && x == 0) || (ok2 && y == 0) {
			return 0, true
		}
		return (x * y) & mask(t.w), ok1 && ok2
	}
	var vals [3]uint64
	for i, k := range [3]*Term{t.a, t.b, t.d} {
		if k == nil {
			continue
		}
		v, ok := m.peval(k)
		if !ok {
			return 0, false
		}
		vals[i] = v
	}
	return evalOp(t, vals[0], vals[1], vals[2]), true
}

func (m *Machine) takeCond(c *Term) {
	m.pc = append(m.pc, c)
	m.pcset[c] = true
	m.pin(c)
	defer func() {
		if m.lvl >= m.common {
			m.solver.Push()
			m.solver.Assert(c)
		}
		m.lvl++
	}()
	// conjunctions: record conjuncts too
	m.domAssume(c)
	for x := c; x.op == OAnd; x = x.b {
		m.pcset[x.a] = true
		m.pcset[x.b] = true
	}
}

func copyModel(a map[string]uint64) map[string]uint64 {
	b := make(map[string]uint64, len(a))
	for k, v := range a {
		b[k] = v
	}
	return b
}

// atFrontier ends the path when a new decision would exceed the frontier depth of a frontier job.
func (m *Machine) atFrontier(k int) {
	if m.job.Frontier > 0 && k >= m.job.Frontier && k >= len(m.prefix) {
		m.frontier = append(m.frontier, FrontierItem{Prefix: append([]int{}, m.prefix[:k]...), Model: copyModel(m.model)})
		endPath("FRONTIER", "")
	}
}

func (m *Machine) branch(c *Term) bool {
	if c.IsConst() {
		return c.c == 1
	}
	if !dbgNoPcset {
		if m.pcset[c] {
			return true
		}
		if m.pcset[Not(c)] {
			return false
		}
		if v, ok := m.peval(c); ok {
			m.stats.domDecided++
			return v == 1
		}
	}
	if v := soleVar(c); !dbgNoDom && v != nil && v != multiVar {
		_, all, none := m.trueSet(c, v)
		if all && !none {
			m.stats.domDecided++
			return true
		}
		if none && !all {
			m.stats.domDecided++
			return false
		}
	}
	k := m.dec
	m.atFrontier(k)
	m.dec++
	m.decLevel = append(m.decLevel, m.lvl)
	if k < len(m.prefix) {
		ch := m.prefix[k]
		if ch == 1 {
			m.takeCond(c)
		} else {
			m.takeCond(Not(c))
		}
		return ch == 1
	}
	first := int(m.evalModel(c))
	other := 1 - first
	oc := c
	if other == 0 {
		oc = Not(c)
	}
	r, mod := m.checkCached(oc)
	if r == "sat" || r == "unknown" {
		if r != "sat" {
			m.stats.unknown++
			mod = copyModel(m.model)
		}
		np := append(append([]int{}, m.prefix[:k]...), other)
		m.pending = append(m.pending, pendingPath{np, mod})
		m.stats.forks++
		if dbgDec {
			fmt.Fprintf(os.Stderr, "  branch k=%d first=%d other feasible (%s) at %s: %s\n", k, first, r, m.curIns.Parent(), m.curIns)
		}
	}
	if dbgDec && r == "unsat" {
		fmt.Fprintf(os.Stderr, "  branch k=%d first=%d other INFEASIBLE at %s: %s\n", k, first, m.curIns.Parent(), m.curIns)
	}
	m.prefix = append(m.prefix, first)
	if first == 1 {
		m.takeCond(c)
	} else {
		m.takeCond(Not(c))
	}
	return first == 1
}

// concInt returns a concrete value for t, forking over all feasible values.
func (m *Machine) concInt(t *Term, what string) int {
	if t.IsConst() {
		return int(sx(t.w, t.c))
	}
	// already determined by earlier concretisations or assumptions on this path
	if v, ok := m.peval(t); ok {
		return int(sx(t.w, v))
	}
	if m.allocExplore > 0 && t.w >= 16 && !m.inExploreSplit {
		// totality harnesses: values above the exploration bound are followed through ONE representative per path
		m.inExploreSplit = true
		big := Slt(Const(t.w, uint64(m.allocExplore)), t)
		if m.branch(big) {
			v := m.evalModel(t)
			m.assume(Eq(t, Const(t.w, v)))
			m.covers["large-count-representative"] = true
		}
		m.inExploreSplit = false
		if v, ok := m.peval(t); ok {
			return int(sx(t.w, v))
		}
	}
	k := m.dec
	m.atFrontier(k)
	m.dec++
	m.decLevel = append(m.decLevel, m.lvl)
	if k < len(m.prefix) {
		v := m.prefix[k]
		m.takeCond(Eq(t, Const(t.w, uint64(v))))
		return v
	}
	m.stats.concretize++
	if dbgDec && m.curIns != nil {
		fmt.Fprintf(os.Stderr, "  CONC %s at %s: %s\n", what, m.curIns.Parent(), m.curIns)
	}
	v0 := int(sx(t.w, m.evalModel(t)))
	excl := Not(Eq(t, Const(t.w, uint64(v0))))
	n := 0
	for {
		r, mod := m.checkCached(excl)
		if r != "sat" {
			if r == "unknown" {
				m.stats.unknown++
			}
			break
		}
		v := int(sx(t.w, Eval(t, mod, map[*Term]uint64{})))
		np := append(append([]int{}, m.prefix[:k]...), v)
		m.pending = append(m.pending, pendingPath{np, mod})
		m.stats.forks++
		if dbgDec {
			fmt.Fprintf(os.Stderr, "  conc k=%d %s alt=%d (v0=%d)\n", k, what, v, v0)
		}
		excl = And(excl, Not(Eq(t, Const(t.w, uint64(v)))))
		n++
		if n > m.maxConc {
			m.pending = m.pending[:len(m.pending)-n]
			endPath("BUDGET", "concretisation of %s has more than %d values", what, m.maxConc)
		}
	}
	m.prefix = append(m.prefix, v0)
	m.takeCond(Eq(t, Const(t.w, uint64(v0))))
	return v0
}

// maxFeasible returns the largest (unsigned) value t can take on the current path, by binary search with the solver.
func (m *Machine) feasible(c *Term) (bool, map[string]uint64) {
	if c.IsConst() {
		return c.c == 1, m.model
	}
	if m.evalModel(c) == 1 {
		return true, m.model
	}
	r, mod := m.checkPlain(c)
	if r == "unknown" {
		m.stats.unknown++
	}
	return r == "sat", mod
}

func (m *Machine) assume(c *Term) {
	if c.IsTrue() {
		return
	}
	if c.IsFalse() {
		endPath("ASSUME", "assumption false")
	}
	if m.evalModel(c) == 1 {
		m.takeCond(c)
		return
	}
	m.takeCond(c)
	r := m.solver.Check()
	if m.solver.dead {
		m.rebuildSolver()
	}
	if r == "unsat" {
		endPath("ASSUME", "assumption infeasible")
	}
	if r == "sat" {
		m.model = m.solver.Model(m.nondets)
	} else {
		m.stats.unknown++
		endPath("UNKNOWN", "assumption feasibility unknown")
	}
}

func (m *Machine) witness(mod map[string]uint64) ([]uint64, int) {
	var w []uint64
	env := 0
	for i, v := range m.nondets {
		if m.nondetEnv[i] {
			env++
			continue
		}
		w = append(w, mod[v.name])
	}
	return w, env
}

func (m *Machine) addViolation(kind, id, msg string, mod map[string]uint64) {
	key := kind + "|" + id + "|" + m.knownCur
	m.vioSeen[key]++
	if m.knownCur != "" {
		m.knownHit[m.knownCur]++
	}
	if m.vioSeen[key] > 3 {
		return
	}
	w, env := m.witness(mod)
	m.violations = append(m.violations, Violation{id: id, kind: kind, msg: msg, model: mod, path: append([]int{}, m.prefix[:min(m.dec, len(m.prefix))]...), known: m.knownCur, wit: w, env: env})
}

type pendingAssert struct {
	c     *Term
	id    string
	known string
}

// assert records an obligation; obligations of a path are discharged together when the path ends (one query when they
// all hold). Every continuation of the assertion point is explored, so checking under the final path condition of each
// continuation covers the path condition at the assertion point.
func (m *Machine) assert(c *Term, id string) {
	m.stats.asserts++
	m.assertIDs[id]++
	if c.IsTrue() {
		m.stats.assertUnsat++
		return
	}
	if v, ok := m.peval(c); ok && v == 1 {
		m.stats.assertUnsat++
		return
	}
	m.passerts = append(m.passerts, pendingAssert{c, id, m.knownCur})
	if len(m.passerts) >= 64 {
		m.flushAsserts()
	}
}

func (m *Machine) flushAsserts() {
	pa := m.passerts
	m.passerts = m.passerts[:0]
	for len(pa) > 0 {
		d := Bool(false)
		for _, a := range pa {
			d = Or(d, Not(a.c))
		}
		r, mod := m.checkCached(d)
		switch r {
		case "unsat":
			m.stats.assertUnsat += len(pa)
			return
		case "sat":
			var rest []pendingAssert
			hit := false
			for _, a := range pa {
				if Eval(a.c, mod, map[*Term]uint64{}) == 0 {
					hit = true
					saved := m.knownCur
					m.knownCur = a.known
					m.addViolation("ASSERT", a.id, "", mod)
					m.knownCur = saved
				} else {
					rest = append(rest, a)
				}
			}
			if !hit { // model evaluation disagrees with the solver: never report success
				m.stats.unknown += len(pa)
				return
			}
			pa = rest
		default:
			// decide one by one so that a single hard obligation does not hide the others
			if len(pa) == 1 {
				m.stats.unknown++
				if len(m.endSamples["UNKNOWN-ASSERT"]) == 0 {
					m.endSamples["UNKNOWN-ASSERT"] = pa[0].id
				}
				return
			}
			for _, a := range pa {
				m.passerts = append(m.passerts[:0], a)
				m.flushAsserts()
			}
			return
		}
	}
}

func (m *Machine) newNondetTagged(w uint8, tag string, env bool) *Term {
	if m.job.Concrete != nil && !env {
		var v uint64
		if m.concPos < len(m.job.Concrete) {
			v = m.job.Concrete[m.concPos]
		}
		m.concPos++
		// keep the nondet list aligned with the witness order
		m.nondets = append(m.nondets, Var(w, fmt.Sprintf("n%d_%s%d", len(m.nondets), tag, w)))
		m.nondetEnv = append(m.nondetEnv, env)
		if w == 0 {
			return Bool(v&1 != 0)
		}
		return Const(w, v)
	}
	v := Var(w, fmt.Sprintf("n%d_%s%d", len(m.nondets), tag, w))
	m.nondets = append(m.nondets, v)
	m.nondetEnv = append(m.nondetEnv, env)
	return v
}

func (m *Machine) newNondet(w uint8, tag string) *Term { return m.newNondetTagged(w, tag, false) }
func (m *Machine) newEnvNondet(w uint8, tag string) *Term { return m.newNondetTagged(w, "e"+tag, true) }

// ---------- running ----------

func (m *Machine) runPath(entry *ssa.Function, pp pendingPath) (status, msg string) {
	m.resetPath()
	m.prefix = pp.prefix
	m.model = pp.model
	if m.model == nil {
		m.model = map[string]uint64{}
	}
	// keep the solver stack up to the level of the last (changed) decision of the new prefix
	m.common = 0
	if n := len(pp.prefix); n > 0 && n-1 < len(m.decLevel) && m.sameUpTo(pp.prefix, n-1) {
		m.common = m.decLevel[n-1]
	}
	if m.common > m.solver.depth {
		m.common = m.solver.depth
	}
	if dbgNoReuse {
		m.common = 0
	}
	m.solver.Pop(m.solver.depth - m.common)
	m.prevPrefix = append([]int{}, pp.prefix...)
	m.decLevel = m.decLevel[:0]
	m.lvl = 0
	defer func() {
		if r := recover(); r != nil {
			if pe, ok := r.(pathEnd); ok {
				status, msg = pe.status, pe.msg
				return
			}
			panic(r)
		}
	}()
	if m.snap == nil {
		m.ensureInit(entry.Pkg)
		var names []string
		for name := range m.sets {
			names = append(names, name)
		}
		sort.Strings(names)
		for _, name := range names {
			g := entry.Pkg.Var(name)
			if g == nil {
				endPath("UNSUPPORTED", "no global %s", name)
			}
			m.globalObj(g).uninit = false
			m.Store(Ptr{m.globalObj(g), 0}, g.Type().(*types.Pointer).Elem(), Const(64, uint64(m.sets[name])))
		}
		if m.job.Warm != "" {
			wf := entry.Pkg.Func(m.job.Warm)
			if wf == nil {
				endPath("UNSUPPORTED", "no warm-up function %s", m.job.Warm)
			}
			m.call(wf, nil, nil)
		}
		m.takeSnapshot()
	}
	m.call(entry, nil, nil)
	return "DONE", ""
}

func (m *Machine) Explore(entry *ssa.Function) {
	m.pending = []pendingPath{{m.job.Prefix, m.job.Model}}
	m.endStatus = map[string]int{}
	m.endSamples = map[string]string{}
	m.allCovers = map[string]int{}
	maxPaths := m.job.MaxPaths
	if maxPaths == 0 {
		maxPaths = 1000000
	}
	firstVioAt := -1
	for len(m.pending) > 0 {
		if m.stats.paths >= maxPaths {
			m.endStatus["PATHBUDGET"] += len(m.pending)
			break
		}
		if !m.deadline.IsZero() && time.Now().After(m.deadline) {
			m.endStatus["TIMEBUDGET"] += len(m.pending)
			break
		}
		// fail fast: a defect that desynchronises a decoder makes the remaining exploration explode; the violations found
		// so far are reported (and replayed) by the driver, the rest of the job is recorded as not explored
		nv := 0
		for i := range m.violations {
			if m.violations[i].known == "" {
				nv++
			}
		}
		if nv > 0 && firstVioAt < 0 {
			firstVioAt = m.stats.paths
		}
		if nv >= 8 || (nv > 0 && m.stats.paths-firstVioAt >= 300) {
			m.endStatus["PATHBUDGET"] += len(m.pending)
			m.endSamples["PATHBUDGET"] = "job stopped after 8 distinct violations or 300 paths beyond the first one"
			break
		}
		pp := m.pending[len(m.pending)-1]
		m.pending = m.pending[:len(m.pending)-1]
		st, msg := m.runPath(entry, pp)
		if st != "ASSUME" {
			m.flushAsserts()
		} else {
			m.passerts = m.passerts[:0]
		}
		if dbgDec {
			w, _ := m.witness(m.model)
			fmt.Fprintf(os.Stderr, "path %d prefix=%v -> %s %s dec=%d final=%v wit=%s\n", m.stats.paths, pp.prefix, st, msg, m.dec, m.prefix, witnessStr(w))
		}
		m.lastPrefix = append(m.lastPrefix[:0], m.prefix...)
		m.stats.paths++
		m.stats.steps += m.steps
		m.stats.decisions += m.dec
		m.endStatus[st]++
		if _, ok := m.endSamples[st]; !ok && msg != "" {
			m.endSamples[st] = msg
		}
		if st == "PANIC" || st == "MEMSAFETY" || st == "ALLOC" || (st == "BUDGET" && m.job.HangIsBug) {
			id := msg
			if i := strings.Index(id, " in "); i > 0 && st == "PANIC" {
				id = id[:i]
			}
			m.addViolation(st, id, msg, copyModel(m.model))
		}
		if m.maxAlloc > m.gMaxAlloc {
			m.gMaxAlloc = m.maxAlloc
		}
		for c := range m.covers {
			m.allCovers[c]++
		}
		if len(m.samples) < 6 && st != "FRONTIER" {
			w, _ := m.witness(m.model)
			var cs []string
			for c := range m.covers {
				cs = append(cs, c)
			}
			sort.Strings(cs)
			m.samples = append(m.samples, fmt.Sprintf("end=%s decisions=%d covers=%v witness=%s", st, m.dec, cs, witnessStr(w)))
			if len(m.observed) > 0 && len(m.obsSample) == 0 {
				m.obsSample = append([]string{}, m.observed...)
			}
		}
	}
}

func (m *Machine) fill(res *Result) {
	res.Paths, res.Forks, res.Steps, res.Decisions = m.stats.paths, m.stats.forks, m.stats.steps, m.stats.decisions
	res.Concretize, res.DomDecided = m.stats.concretize, m.stats.domDecided
	res.CacheHits = m.stats.cacheHits
	res.Asserts, res.Discharged, res.Unknown = m.stats.asserts, m.stats.assertUnsat, m.stats.unknown
	res.Queries, res.Sat, res.Unsat, res.SolverUnknown = m.solver.Queries, m.solver.Sat, m.solver.Unsat, m.solver.Unknown
	res.SolverS = m.solver.Time.Seconds()
	res.Ends, res.EndSamples, res.Covers, res.Funcs, res.Stubs = m.endStatus, m.endSamples, m.allCovers, m.funcsRun, m.stubsHit
	res.Frontier = m.frontier
	res.Samples = m.samples
	res.Observed = m.obsSample
	res.AssertIDs = m.assertIDs
	res.KnownHit = m.knownHit
	res.MaxAlloc = m.gMaxAlloc
	for _, v := range m.violations {
		res.Violations = append(res.Violations, ViolationOut{Kind: v.kind, ID: v.id, Msg: v.msg, Witness: v.wit, EnvNondets: v.env, Prefix: v.path, Known: v.known})
	}
}

func (m *Machine) ensureInit(p *ssa.Package) {
	if p == nil || m.initDone[p] {
		return
	}
	m.initDone[p] = true
	if !m.initPkgs[p.Pkg.Path()] {
		return
	}
	if f := p.Func("init"); f != nil {
		m.call(f, nil, nil)
	}
}

func (m *Machine) globalObj(g *ssa.Global) *Obj {
	if o, ok := m.globals[g]; ok {
		return o
	}
	if g.Pkg != nil && !m.initDone[g.Pkg] {
		m.ensureInit(g.Pkg)
		if o, ok := m.globals[g]; ok {
			return o
		}
	}
	t := g.Type().(*types.Pointer).Elem()
	o := m.heap.New(sizeof(t), "global:"+g.String())
	if g.Pkg != nil && !m.initPkgs[g.Pkg.Pkg.Path()] && !strings.HasPrefix(g.Name(), "init$") && !zeroOKPkgs[g.Pkg.Pkg.Path()] {
		o.uninit = true
	}
	m.globals[g] = o
	return o
}

func (m *Machine) strObj(s string) Str {
	if len(s) == 0 {
		return Str{}
	}
	o, ok := m.strObjs[s]
	if !ok {
		o = m.heap.New(len(s), "strlit")
		for i := 0; i < len(s); i++ {
			o.cells[i].t = Const(8, uint64(s[i]))
		}
		o.ro = true
		m.strObjs[s] = o
	}
	return Str{Ptr{o, 0}, len(s)}
}

func (m *Machine) constVal(c *ssa.Const) Val {
	t := c.Type()
	if c.Value == nil {
		return m.zeroVal(t)
	}
	switch u := t.Underlying().(type) {
	case *types.Basic:
		switch {
		case u.Info()&types.IsBoolean != 0:
			return Bool(constant.BoolVal(c.Value))
		case u.Info()&types.IsString != 0:
			return m.strObj(constant.StringVal(c.Value))
		case u.Info()&types.IsInteger != 0:
			w := basicWidth(u)
			if i, ok := constant.Int64Val(constant.ToInt(c.Value)); ok {
				return Const(w, uint64(i))
			}
			ui, _ := constant.Uint64Val(constant.ToInt(c.Value))
			return Const(w, ui)
		case u.Info()&types.IsFloat != 0:
			f, _ := constant.Float64Val(c.Value)
			if u.Kind() == types.Float32 {
				return Const(32, uint64(math.Float32bits(float32(f))))
			}
			return Const(64, math.Float64bits(f))
		}
	case *types.Interface:
		// typed nil handled above
	}
	endPath("UNSUPPORTED", "const %s", c)
	return nil
}

func (m *Machine) get(fr *frame, v ssa.Value) Val {
	switch x := v.(type) {
	case *ssa.Const:
		return m.constVal(x)
	case *ssa.Global:
		return Ptr{m.globalObj(x), 0}
	case *ssa.Function:
		return &Closure{fn: x}
	case *ssa.Builtin:
		endPath("UNSUPPORTED", "builtin as value %s", x.Name())
	}
	r, ok := fr.locals[v]
	if !ok {
		panic(fmt.Sprintf("no value for %s (%T) in %s", v.Name(), v, fr.fn))
	}
	return r
}

func (m *Machine) call(fn *ssa.Function, args []Val, env []Val) Val {
	if len(fn.Blocks) == 0 {
		return m.external(fn, args)
	}
	if r, ok := m.stub(fn, args); ok {
		return r
	}
	if fn.Pkg != nil && (fn.Name() == "init" || strings.HasPrefix(fn.Name(), "init#")) && fn.Signature.Recv() == nil {
		if !m.initPkgs[fn.Pkg.Pkg.Path()] {
			return nil
		}
		m.initDone[fn.Pkg] = true
	}
	if fn.Pkg != nil && fn.Pkg.Pkg.Path() == "reflect" {
		if r, ok := m.reflectStub(fn.String(), fn, args); ok {
			return r
		}
		if !strings.HasPrefix(fn.String(), "(reflect.StructTag).") && !strings.HasPrefix(fn.String(), "(reflect.Kind).") {
			endPath("UNSUPPORTED", "reflect function %s", fn)
		}
	}
	m.depth++
	if m.depth > m.maxDepth {
		endPath("BUDGET", "call depth > %d in %s", m.maxDepth, fn)
	}
	m.funcsRun[fn.String()]++
	callStack = append(callStack, fn.String())
	defer func() { callStack = callStack[:len(callStack)-1] }()
	if len(m.watch) > 0 && m.watch[fn.String()] {
		m.lastArgs[fn.String()] = args
	}
	fr := &frame{fn: fn, locals: make(map[ssa.Value]Val, 32)}
	for i, p := range fn.Params {
		fr.locals[p] = args[i]
	}
	for i, fv := range fn.FreeVars {
		fr.locals[fv] = env[i]
	}
	var prev *ssa.BasicBlock
	b := fn.Blocks[0]
	for {
		var next *ssa.BasicBlock
		for _, ins := range b.Instrs {
			m.steps++
			if m.steps > m.maxSteps {
				endPath("BUDGET", "step budget %d exceeded in %s", m.maxSteps, fn)
			}
			if m.trace {
				fmt.Printf("  %s: %s\n", fn.Name(), ins)
			}
			if dbgDec {
				m.curIns = ins
			}
			switch x := ins.(type) {
			case *ssa.Phi:
				for i, p := range b.Preds {
					if p == prev {
						fr.locals[x] = m.get(fr, x.Edges[i])
						break
					}
				}
			case *ssa.If:
				c := m.get(fr, x.Cond).(*Term)
				T, F := b.Succs[0], b.Succs[1]
				if !c.IsConst() && m.mergeChains {
					// OR-chain: successive blocks that only compare and branch to the same true target
					if tgt, last, cond, ok := m.mergeChain(fr, b, c, true); ok {
						if m.branch(cond) {
							next = T
						} else {
							next = tgt
							b = last
						}
						break
					}
					if tgt, last, cond, ok := m.mergeChain(fr, b, c, false); ok {
						if m.branch(cond) {
							next = tgt
							b = last
						} else {
							next = F
						}
						break
					}
				}
				if m.branch(c) {
					next = T
				} else {
					next = F
				}
			case *ssa.Jump:
				next = b.Succs[0]
			case *ssa.Return:
				var res Val
				switch len(x.Results) {
				case 0:
				case 1:
					res = m.get(fr, x.Results[0])
				default:
					a := make(Agg, len(x.Results))
					for i, r := range x.Results {
						a[i] = m.get(fr, r)
					}
					res = a
				}
				m.depth--
				if len(m.concRet) > 0 && m.concRet[fn.String()] {
					if t, ok := res.(*Term); ok && !t.IsConst() && t.w > 0 {
						res = Const(t.w, uint64(m.concInt(t, "result of "+fn.Name())))
					}
				}
				return res
			case *ssa.RunDefers:
				for i := len(fr.defers) - 1; i >= 0; i-- {
					fr.defers[i]()
				}
				fr.defers = nil
			case *ssa.Panic:
				endPath("PANIC", "explicit panic in %s: %s", fn, m.describe(m.get(fr, x.X)))
			case *ssa.Store:
				p := m.get(fr, x.Addr).(Ptr)
				m.Store(p, x.Val.Type(), m.get(fr, x.Val))
			case *ssa.MapUpdate:
				m.mapUpdate(m.get(fr, x.Map).(*MapObj), m.get(fr, x.Key), m.get(fr, x.Value))
			case *ssa.DebugRef:
			case *ssa.Defer:
				cc := x.Call
				f, a, e := m.prepareCall(fr, &cc)
				fr.defers = append(fr.defers, func() { m.invoke(f, a, e, &cc) })
			case *ssa.Go, *ssa.Send, *ssa.Select:
				endPath("UNSUPPORTED", "instruction %T", x)
			case ssa.Value:
				fr.locals[x] = m.evalInstr(fr, x)
			default:
				endPath("UNSUPPORTED", "instruction %T", ins)
			}
		}
		if next == nil {
			panic("fell off block in " + fn.String())
		}
		prev, b = b, next
	}
}

func (m *Machine) describe(v Val) string {
	switch x := v.(type) {
	case Iface:
		if x.t == nil {
			return "nil"
		}
		if s, ok := x.v.(Str); ok {
			return x.t.String() + ":" + m.strConcrete(s)
		}
		return x.t.String()
	}
	return fmt.Sprintf("%T", v)
}

func (m *Machine) strConcrete(s Str) string {
	var sb strings.Builder
	for i := 0; i < s.n; i++ {
		c := s.p.obj.cells[s.p.off+i].t
		if c != nil && c.IsConst() {
			sb.WriteByte(byte(c.c))
		} else {
			sb.WriteByte('?')
		}
	}
	return sb.String()
}

type callee struct {
	fn      *ssa.Function
	builtin *ssa.Builtin
}

func (m *Machine) prepareCall(fr *frame, cc *ssa.CallCommon) (callee, []Val, []Val) {
	var args []Val
	if cc.IsInvoke() {
		recv := m.get(fr, cc.Value).(Iface)
		if recv.t == nil {
			endPath("PANIC", "method call on nil interface (%s)", cc.Method.Name())
		}
		f := m.prog.LookupMethod(recv.t, cc.Method.Pkg(), cc.Method.Name())
		if f == nil {
			endPath("UNSUPPORTED", "no method %s on %s", cc.Method.Name(), recv.t)
		}
		args = append(args, recv.v)
		for _, a := range cc.Args {
			args = append(args, m.get(fr, a))
		}
		return callee{fn: f}, args, nil
	}
	for _, a := range cc.Args {
		args = append(args, m.get(fr, a))
	}
	switch f := cc.Value.(type) {
	case *ssa.Function:
		return callee{fn: f}, args, nil
	case *ssa.Builtin:
		return callee{builtin: f}, args, nil
	}
	cl := m.get(fr, cc.Value).(*Closure)
	if cl == nil {
		endPath("PANIC", "call of nil func")
	}
	return callee{fn: cl.fn}, args, cl.env
}

func (m *Machine) invoke(c callee, args, env []Val, cc *ssa.CallCommon) Val {
	if c.builtin != nil {
		return m.builtin(c.builtin, args, cc)
	}
	return m.call(c.fn, args, env)
}

func (m *Machine) evalInstr(fr *frame, ins ssa.Value) Val {
	switch x := ins.(type) {
	case *ssa.Call:
		f, a, e := m.prepareCall(fr, &x.Call)
		return m.invoke(f, a, e, &x.Call)
	case *ssa.BinOp:
		return m.binop(x.Op, x.X.Type(), m.get(fr, x.X), m.get(fr, x.Y), x.Y.Type())
	case *ssa.UnOp:
		return m.unop(x, m.get(fr, x.X))
	case *ssa.Alloc:
		t := x.Type().(*types.Pointer).Elem()
		o := m.heap.New(sizeof(t), "alloc:"+x.Comment+":"+fr.fn.Name())
		return Ptr{o, 0}
	case *ssa.FieldAddr:
		p := m.get(fr, x.X).(Ptr)
		if p.obj == nil {
			endPath("PANIC", "nil pointer dereference (field address) in %s", fr.fn)
		}
		st := x.X.Type().Underlying().(*types.Pointer).Elem().Underlying().(*types.Struct)
		offs := sizes.Offsetsof(fieldsOf(st))
		return Ptr{p.obj, p.off + int(offs[x.Field])}
	case *ssa.Field:
		return m.get(fr, x.X).(Agg)[x.Field]
	case *ssa.IndexAddr:
		idx := widenIndex(m.get(fr, x.Index).(*Term), x.Index.Type())
		switch xt := x.X.Type().Underlying().(type) {
		case *types.Slice:
			s := m.get(fr, x.X).(Slice)
			if !idx.IsConst() && s.n > 16 && onlyLoaded(x) {
				if p, ok := m.sparseIndex(s, sizeof(xt.Elem()), idx, fr.fn); ok {
					return p
				}
			}
			i := m.boundsIndex(idx, s.n, fr.fn)
			return Ptr{s.p.obj, s.p.off + i*sizeof(xt.Elem())}
		case *types.Pointer:
			at := xt.Elem().Underlying().(*types.Array)
			p := m.get(fr, x.X).(Ptr)
			if p.obj == nil {
				endPath("PANIC", "nil array pointer index")
			}
			if !idx.IsConst() {
				n := int(at.Len())
				es := sizeof(at.Elem())
				if _, ok := m.tableLookup(p, es, n, idx); ok {
					oob := Or(Slt(idx, Const(idx.w, 0)), Sle(Const(idx.w, uint64(n)), idx))
					if m.branch(oob) {
						endPath("PANIC", "index out of range [symbolic] with length %d in %s", n, fr.fn)
					}
					return SymPtr{p, es, n, idx}
				}
			}
			i := m.boundsIndex(idx, int(at.Len()), fr.fn)
			return Ptr{p.obj, p.off + i*sizeof(at.Elem())}
		}
	case *ssa.Index:
		idx := widenIndex(m.get(fr, x.Index).(*Term), x.Index.Type())
		switch x.X.Type().Underlying().(type) {
		case *types.Array:
			a := m.get(fr, x.X).(Agg)
			i := m.boundsIndex(idx, len(a), fr.fn)
			return a[i]
		case *types.Basic: // string
			s := m.get(fr, x.X).(Str)
			if !idx.IsConst() && s.n > 0 {
				// constant string used as a look-up table: multiplexer instead of a case split on the index
				if t, ok := m.tableLookup(s.p, 1, s.n, idx); ok {
					oob := Or(Slt(idx, Const(idx.w, 0)), Sle(Const(idx.w, uint64(s.n)), idx))
					if m.branch(oob) {
						endPath("PANIC", "index out of range [symbolic] with length %d in %s", s.n, fr.fn)
					}
					return t
				}
			}
			i := m.boundsIndex(idx, s.n, fr.fn)
			return m.loadBytes(Ptr{s.p.obj, s.p.off + i}, 1)
		}
	case *ssa.Lookup:
		switch x.X.Type().Underlying().(type) {
		case *types.Map:
			mo := m.get(fr, x.X).(*MapObj)
			v, ok := m.mapLookup(mo, m.get(fr, x.Index), x.X.Type().Underlying().(*types.Map))
			if x.CommaOk {
				return Agg{v, Bool(ok)}
			}
			return v
		}
	case *ssa.Slice:
		return m.sliceOp(fr, x)
	case *ssa.Extract:
		return m.get(fr, x.Tuple).(Agg)[x.Index]
	case *ssa.MakeInterface:
		return Iface{x.X.Type(), m.get(fr, x.X)}
	case *ssa.ChangeInterface:
		return m.get(fr, x.X)
	case *ssa.ChangeType:
		return m.get(fr, x.X)
	case *ssa.Convert:
		return m.convert(m.get(fr, x.X), x.X.Type(), x.Type())
	case *ssa.MultiConvert:
		return m.convert(m.get(fr, x.X), x.X.Type(), x.Type())
	case *ssa.TypeAssert:
		return m.typeAssert(x, m.get(fr, x.X).(Iface))
	case *ssa.MakeClosure:
		env := make([]Val, len(x.Bindings))
		for i, b := range x.Bindings {
			env[i] = m.get(fr, b)
		}
		return &Closure{fn: x.Fn.(*ssa.Function), env: env}
	case *ssa.MakeSlice:
		et := x.Type().Underlying().(*types.Slice).Elem()
		n := m.allocCount(m.get(fr, x.Len).(*Term), sizeof(et), "make len")
		c := m.allocCount(m.get(fr, x.Cap).(*Term), sizeof(et), "make cap")
		if n < 0 || c < n {
			endPath("PANIC", "makeslice: len out of range")
		}
		o := m.heap.New(c*sizeof(et), "makeslice:"+fr.fn.Name())
		return Slice{Ptr{o, 0}, n, c}
	case *ssa.MakeMap:
		return m.newMap(x.Type().Underlying().(*types.Map))
	case *ssa.Range:
		return m.rangeStart(m.get(fr, x.X), x.X.Type())
	case *ssa.Next:
		return m.rangeNext(m.get(fr, x.Iter), x)
	case *ssa.SliceToArrayPointer:
		s := m.get(fr, x.X).(Slice)
		n := int(x.Type().Underlying().(*types.Pointer).Elem().Underlying().(*types.Array).Len())
		if s.n < n {
			endPath("PANIC", "slice to array pointer: len %d < %d", s.n, n)
		}
		return s.p
	}
	endPath("UNSUPPORTED", "instr %T: %s in %s", ins, ins, fr.fn)
	return nil
}

// tableLookup returns an ite-chain for a symbolic index into memory whose cells are all constants.
func (m *Machine) tableLookup(base Ptr, es, n int, idx *Term) (*Term, bool) {
	if base.obj == nil || es > 8 || n > 256 {
		return nil, false
	}
	vals := make([]*Term, n)
	for i := 0; i < n; i++ {
		if base.off+(i+1)*es > base.obj.size {
			return nil, false
		}
		for k := 0; k < es; k++ {
			c := base.obj.cells[base.off+i*es+k]
			if c.ref != nil || !c.t.IsConst() {
				return nil, false
			}
		}
		vals[i] = m.loadBytes(Ptr{base.obj, base.off + i*es}, es)
	}
	// closed forms: the table contents are compared concretely with a candidate function on every run; when they match,
	// the symbolic look-up is the function's term (a sound rewriting that avoids a 256-way multiplexer)
	if es == 1 && n == 256 && idx.w >= 8 {
		x := Extract(idx, 7, 0)
		isLower, isIdent := true, true
		for i := 0; i < 256; i++ {
			want := uint64(i)
			if i >= 'A' && i <= 'Z' {
				want += 0x20
			}
			if vals[i].c != want {
				isLower = false
			}
			if vals[i].c != uint64(i) {
				isIdent = false
			}
		}
		if isIdent {
			return x, true
		}
		if isLower {
			up := And(Ule(Const(8, 'A'), x), Ule(x, Const(8, 'Z')))
			return Ite(up, Bin(OBvAdd, x, Const(8, 0x20)), x), true
		}
	}
	// balanced multiplexer tree on the index bits (bit-blasts to n-1 muxes instead of n comparators)
	bitsN := 0
	for (1 << bitsN) < n {
		bitsN++
	}
	var build func(lo, bit int) *Term
	build = func(lo, bit int) *Term {
		if bit < 0 {
			if lo >= n {
				return vals[n-1]
			}
			return vals[lo]
		}
		b := Eq(Extract(idx, uint8(bit), uint8(bit)), Const(1, 1))
		return Ite(b, build(lo|1<<bit, bit-1), build(lo, bit-1))
	}
	return build(0, bitsN-1), true
}

// onlyLoaded: the element address is used for loads only (then any index whose element has the same contents is an
// equally good representative).
func onlyLoaded(x *ssa.IndexAddr) bool {
	refs := x.Referrers()
	if refs == nil || len(*refs) == 0 {
		return false
	}
	for _, r := range *refs {
		u, ok := r.(*ssa.UnOp)
		if !ok || u.Op != token.MUL {
			return false
		}
	}
	return true
}

// sparseIndex handles a symbolic index into a large concrete table in which all but a few elements have the same
// contents (e.g. a field-number index that is nil except at the declared numbers): one branch per exceptional element,
// and one representative for all the others. Sound because the address is only loaded from (onlyLoaded) and the path
// condition records exactly which case was taken.
func (m *Machine) sparseIndex(s Slice, es int, idx *Term, fn *ssa.Function) (Ptr, bool) {
	if s.p.obj == nil || s.p.off+s.n*es > s.p.obj.size {
		return Ptr{}, false
	}
	key := func(i int) string {
		var sb strings.Builder
		for k := 0; k < es; k++ {
			c := s.p.obj.cells[s.p.off+i*es+k]
			if c.ref != nil {
				fmt.Fprintf(&sb, "r%p.%d;", c.ref, c.k)
			} else if c.t != nil && c.t.IsConst() {
				fmt.Fprintf(&sb, "c%d;", c.t.c)
			} else {
				return ""
			}
		}
		return sb.String()
	}
	groups := map[string][]int{}
	for i := 0; i < s.n; i++ {
		k := key(i)
		if k == "" {
			return Ptr{}, false
		}
		groups[k] = append(groups[k], i)
	}
	major := ""
	for k, g := range groups {
		if major == "" || len(g) > len(groups[major]) || (len(g) == len(groups[major]) && g[0] < groups[major][0]) {
			major = k
		}
	}
	if s.n-len(groups[major]) > 48 {
		return Ptr{}, false
	}
	oob := Or(Slt(idx, Const(idx.w, 0)), Sle(Const(idx.w, uint64(s.n)), idx))
	if m.branch(oob) {
		endPath("PANIC", "index out of range [symbolic] with length %d in %s", s.n, fn)
	}
	var minor []int
	for k, g := range groups {
		if k != major {
			minor = append(minor, g...)
		}
	}
	sort.Ints(minor)
	for _, j := range minor {
		if m.branch(Eq(idx, Const(idx.w, uint64(j)))) {
			return Ptr{s.p.obj, s.p.off + j*es}, true
		}
	}
	return Ptr{s.p.obj, s.p.off + groups[major][0]*es}, true
}

func (m *Machine) boundsIndex(idx *Term, n int, fn *ssa.Function) int {
	if !idx.IsConst() {
		// out-of-range feasible?
		oob := Or(Slt(idx, Const(idx.w, 0)), Sle(Const(idx.w, uint64(n)), idx))
		if m.branch(oob) {
			endPath("PANIC", "index out of range [symbolic] with length %d in %s", n, fn)
		}
	}
	i := m.concInt(idx, "index")
	if i < 0 || i >= n {
		endPath("PANIC", "index out of range [%d] with length %d in %s", i, n, fn)
	}
	return i
}

func (m *Machine) sliceOp(fr *frame, x *ssa.Slice) Val {
	getI := func(v ssa.Value, def int) int {
		if v == nil {
			return def
		}
		return m.concInt(m.get(fr, v).(*Term), "slice bound")
	}
	switch xt := x.X.Type().Underlying().(type) {
	case *types.Slice:
		s := m.get(fr, x.X).(Slice)
		lo := getI(x.Low, 0)
		hi := getI(x.High, s.n)
		mx := getI(x.Max, s.c)
		if lo < 0 || hi < lo || mx < hi || mx > s.c {
			endPath("PANIC", "slice bounds out of range [%d:%d:%d] with capacity %d in %s", lo, hi, mx, s.c, fr.fn)
		}
		es := sizeof(xt.Elem())
		if s.p.obj == nil {
			return Slice{}
		}
		return Slice{Ptr{s.p.obj, s.p.off + lo*es}, hi - lo, mx - lo}
	case *types.Basic: // string
		s := m.get(fr, x.X).(Str)
		lo := getI(x.Low, 0)
		hi := getI(x.High, s.n)
		if lo < 0 || hi < lo || hi > s.n {
			endPath("PANIC", "string slice bounds out of range [%d:%d] with length %d in %s", lo, hi, s.n, fr.fn)
		}
		if s.p.obj == nil {
			return Str{}
		}
		return Str{Ptr{s.p.obj, s.p.off + lo}, hi - lo}
	case *types.Pointer: // pointer to array
		at := xt.Elem().Underlying().(*types.Array)
		p := m.get(fr, x.X).(Ptr)
		n := int(at.Len())
		lo := getI(x.Low, 0)
		hi := getI(x.High, n)
		mx := getI(x.Max, n)
		if p.obj == nil {
			endPath("PANIC", "slice of nil array pointer")
		}
		if lo < 0 || hi < lo || mx < hi || mx > n {
			endPath("PANIC", "slice bounds out of range [%d:%d:%d] with capacity %d in %s", lo, hi, mx, n, fr.fn)
		}
		es := sizeof(at.Elem())
		return Slice{Ptr{p.obj, p.off + lo*es}, hi - lo, mx - lo}
	}
	endPath("UNSUPPORTED", "slice of %s", x.X.Type())
	return nil
}

func (m *Machine) typeAssert(x *ssa.TypeAssert, iv Iface) Val {
	ok := false
	if iv.t != nil {
		if types.IsInterface(x.AssertedType) {
			ok = types.AssignableTo(iv.t, x.AssertedType)
		} else {
			ok = types.Identical(iv.t, x.AssertedType)
		}
	}
	var res Val
	if ok {
		if types.IsInterface(x.AssertedType) {
			res = iv
		} else {
			res = iv.v
		}
	} else {
		if !x.CommaOk {
			endPath("PANIC", "interface conversion: %v is not %s", iv.t, x.AssertedType)
		}
		res = m.zeroVal(x.AssertedType)
	}
	if x.CommaOk {
		return Agg{res, Bool(ok)}
	}
	return res
}

func isSigned(t types.Type) bool {
	b, ok := t.Underlying().(*types.Basic)
	return ok && b.Info()&types.IsUnsigned == 0 && b.Info()&types.IsInteger != 0
}

func isFloat(t types.Type) bool {
	b, ok := t.Underlying().(*types.Basic)
	return ok && b.Info()&types.IsFloat != 0
}

func (m *Machine) unop(x *ssa.UnOp, v Val) Val {
	switch x.Op {
	case token.MUL:
		if sp, ok := v.(SymPtr); ok {
			t, ok := m.tableLookup(sp.base, sp.es, sp.n, sp.idx)
			if !ok {
				endPath("UNSUPPORTED", "table changed under symbolic pointer")
			}
			return m.valFromBits(x.Type(), t, 0)
		}
		p := v.(Ptr)
		if p.obj == nil {
			endPath("PANIC", "nil pointer dereference in %s", x.Parent())
		}
		return m.Load(p, x.Type())
	case token.NOT:
		return Not(v.(*Term))
	case token.SUB:
		if isFloat(x.Type()) {
			t := v.(*Term)
			return Bin(OBvXor, t, Const(t.w, uint64(1)<<(t.w-1)))
		}
		return BvNeg(v.(*Term))
	case token.XOR:
		return BvNot(v.(*Term))
	}
	endPath("UNSUPPORTED", "unop %s", x.Op)
	return nil
}

func (m *Machine) strEq(a, b Str) *Term {
	if a.n != b.n {
		return Bool(false)
	}
	r := Bool(true)
	for i := 0; i < a.n; i++ {
		x := m.loadBytes(Ptr{a.p.obj, a.p.off + i}, 1)
		y := m.loadBytes(Ptr{b.p.obj, b.p.off + i}, 1)
		r = And(r, Eq(x, y))
	}
	return r
}

func (m *Machine) strLess(a, b Str) *Term {
	// lexicographic a < b
	n := a.n
	if b.n < n {
		n = b.n
	}
	r := Bool(a.n < b.n)
	for i := n - 1; i >= 0; i-- {
		x := m.loadBytes(Ptr{a.p.obj, a.p.off + i}, 1)
		y := m.loadBytes(Ptr{b.p.obj, b.p.off + i}, 1)
		r = Or(Ult(x, y), And(Eq(x, y), r))
	}
	return r
}

func (m *Machine) strConcat(a, b Str) Str {
	if a.n == 0 {
		return b
	}
	if b.n == 0 {
		return a
	}
	o := m.heap.New(a.n+b.n, "strcat")
	for i := 0; i < a.n; i++ {
		o.cells[i] = a.p.obj.cells[a.p.off+i]
	}
	for i := 0; i < b.n; i++ {
		o.cells[a.n+i] = b.p.obj.cells[b.p.off+i]
	}
	return Str{Ptr{o, 0}, a.n + b.n}
}

func (m *Machine) valEq(t types.Type, a, b Val) *Term {
	switch x := a.(type) {
	case *Term:
		if t != nil && isFloat(t) {
			return m.floatBin(token.EQL, t, x, b.(*Term)).(*Term)
		}
		return Eq(x, b.(*Term))
	case Ptr:
		y, ok := b.(Ptr)
		if !ok {
			endPath("UNSUPPORTED", "ptr compare with %T", b)
		}
		return Bool(x.obj == y.obj && (x.obj == nil || x.off == y.off))
	case PtrInt:
		if y, ok := b.(PtrInt); ok {
			return Bool(x.p == y.p)
		}
		if y, ok := b.(*Term); ok && y.IsConst() && y.c == 0 {
			return Bool(false)
		}
		endPath("UNSUPPORTED", "ptrint compare")
	case Str:
		return m.strEq(x, b.(Str))
	case Iface:
		y := b.(Iface)
		if x.t == nil || y.t == nil {
			return Bool(x.t == nil && y.t == nil)
		}
		if !types.Identical(x.t, y.t) {
			return Bool(false)
		}
		if !types.Comparable(x.t) {
			endPath("PANIC", "comparing uncomparable type %s", x.t)
		}
		return m.valEq(x.t, x.v, y.v)
	case Agg:
		y := b.(Agg)
		r := Bool(true)
		var et func(i int) types.Type
		switch u := t.Underlying().(type) {
		case *types.Struct:
			et = func(i int) types.Type { return u.Field(i).Type() }
		case *types.Array:
			et = func(i int) types.Type { return u.Elem() }
		}
		for i := range x {
			r = And(r, m.valEq(et(i), x[i], y[i]))
		}
		return r
	case *Closure:
		y := b.(*Closure)
		return Bool(x == nil && y == nil)
	case *MapObj:
		y := b.(*MapObj)
		return Bool(x == y)
	case Slice:
		y := b.(Slice)
		return Bool(x.p.obj == nil && y.p.obj == nil)
	}
	endPath("UNSUPPORTED", "equality on %T", a)
	return nil
}

func (m *Machine) binop(op token.Token, t types.Type, a, b Val, bt types.Type) Val {
	switch op {
	case token.EQL:
		return m.valEq(t, a, b)
	case token.NEQ:
		return Not(m.valEq(t, a, b))
	}
	if s, ok := a.(Str); ok {
		y := b.(Str)
		switch op {
		case token.ADD:
			return m.strConcat(s, y)
		case token.LSS:
			return m.strLess(s, y)
		case token.GTR:
			return m.strLess(y, s)
		case token.LEQ:
			return Not(m.strLess(y, s))
		case token.GEQ:
			return Not(m.strLess(s, y))
		}
	}
	if pi, ok := a.(PtrInt); ok {
		y, ok2 := b.(*Term)
		if ok2 && y.IsConst() {
			switch op {
			case token.ADD:
				return PtrInt{Ptr{pi.p.obj, pi.p.off + int(y.c)}}
			case token.SUB:
				return PtrInt{Ptr{pi.p.obj, pi.p.off - int(y.c)}}
			case token.XOR, token.OR:
				if y.c == 0 {
					return pi
				}
			}
		}
		if ok2 && (op == token.ADD) {
			off := m.concInt(y, "pointer offset")
			return PtrInt{Ptr{pi.p.obj, pi.p.off + off}}
		}
		endPath("UNSUPPORTED", "uintptr arithmetic %s on pointer-derived value", op)
	}
	if pi, ok := b.(PtrInt); ok && op == token.ADD {
		if y, ok2 := a.(*Term); ok2 {
			off := m.concInt(y, "pointer offset")
			return PtrInt{Ptr{pi.p.obj, pi.p.off + off}}
		}
	}
	x, ok1 := a.(*Term)
	y, ok2 := b.(*Term)
	if !ok1 || !ok2 {
		endPath("UNSUPPORTED", "binop %s on %T,%T", op, a, b)
	}
	if isFloat(t) {
		return m.floatBin(op, t, x, y)
	}
	signed := isSigned(t)
	switch op {
	case token.ADD:
		return Bin(OBvAdd, x, y)
	case token.SUB:
		return Bin(OBvSub, x, y)
	case token.MUL:
		return Bin(OBvMul, x, y)
	case token.QUO, token.REM:
		if !y.IsConst() {
			if m.branch(Eq(y, Const(y.w, 0))) {
				endPath("PANIC", "integer divide by zero")
			}
		} else if y.c == 0 {
			endPath("PANIC", "integer divide by zero")
		}
		if signed {
			if op == token.QUO {
				return Bin(OBvSdiv, x, y)
			}
			return Bin(OBvSrem, x, y)
		}
		if op == token.QUO {
			return Bin(OBvUdiv, x, y)
		}
		return Bin(OBvUrem, x, y)
	case token.AND:
		if x.w == 0 {
			return And(x, y)
		}
		return Bin(OBvAnd, x, y)
	case token.OR:
		if x.w == 0 {
			return Or(x, y)
		}
		return Bin(OBvOr, x, y)
	case token.XOR:
		return Bin(OBvXor, x, y)
	case token.AND_NOT:
		return Bin(OBvAnd, x, BvNot(y))
	case token.SHL, token.SHR:
		// shift count may have different width; Go: count unsigned (or checked non-negative)
		if isSigned(bt) && !y.IsConst() {
			if m.branch(Slt(y, Const(y.w, 0))) {
				endPath("PANIC", "negative shift amount")
			}
		}
		var cnt *Term
		if y.w < x.w {
			cnt = Zext(x.w, y)
		} else if y.w > x.w {
			// saturate: if y >= w then w else trunc
			big := Ule(Const(y.w, uint64(x.w)), y)
			cnt = Ite(big, Const(x.w, uint64(x.w)), Extract(y, x.w-1, 0))
		} else {
			cnt = y
		}
		if op == token.SHL {
			return Bin(OBvShl, x, cnt)
		}
		if signed {
			return Bin(OBvAshr, x, cnt)
		}
		return Bin(OBvLshr, x, cnt)
	case token.LSS:
		if signed {
			return Slt(x, y)
		}
		return Ult(x, y)
	case token.LEQ:
		if signed {
			return Sle(x, y)
		}
		return Ule(x, y)
	case token.GTR:
		if signed {
			return Slt(y, x)
		}
		return Ult(y, x)
	case token.GEQ:
		if signed {
			return Sle(y, x)
		}
		return Ule(y, x)
	}
	endPath("UNSUPPORTED", "binop %s", op)
	return nil
}

func fpIsNaN(x *Term) *Term {
	if x.w == 32 {
		return And(Eq(Extract(x, 30, 23), Const(8, 0xff)), Not(Eq(Extract(x, 22, 0), Const(23, 0))))
	}
	return And(Eq(Extract(x, 62, 52), Const(11, 0x7ff)), Not(Eq(Extract(x, 51, 0), Const(52, 0))))
}

func fpIsZero(x *Term) *Term { return Eq(Extract(x, x.w-2, 0), Const(x.w-1, 0)) }

// fpKey maps IEEE bit patterns (non-NaN) to integers whose signed order is the floating-point order (with -0 < +0).
func fpKey(x *Term) *Term {
	neg := Eq(Extract(x, x.w-1, x.w-1), Const(1, 1))
	return Ite(neg, BvNot(x), Bin(OBvOr, x, Const(x.w, uint64(1)<<(x.w-1))))
}

func (m *Machine) floatBin(op token.Token, t types.Type, x, y *Term) Val {
	if !x.IsConst() || !y.IsConst() {
		nan := Or(fpIsNaN(x), fpIsNaN(y))
		eq := And(Not(nan), Or(Eq(x, y), And(fpIsZero(x), fpIsZero(y))))
		lt := And(Not(nan), And(Ult(fpKey(x), fpKey(y)), Not(And(fpIsZero(x), fpIsZero(y)))))
		gt := And(Not(nan), And(Ult(fpKey(y), fpKey(x)), Not(And(fpIsZero(x), fpIsZero(y)))))
		switch op {
		case token.EQL:
			return eq
		case token.NEQ:
			return Not(eq)
		case token.LSS:
			return lt
		case token.GTR:
			return gt
		case token.LEQ:
			return Or(lt, eq)
		case token.GEQ:
			return Or(gt, eq)
		}
		endPath("UNSUPPORTED", "float op %s on symbolic value", op)
	}
	var a, b float64
	if x.w == 32 {
		a, b = float64(math.Float32frombits(uint32(x.c))), float64(math.Float32frombits(uint32(y.c)))
	} else {
		a, b = math.Float64frombits(x.c), math.Float64frombits(y.c)
	}
	mkf := func(f float64) *Term {
		if x.w == 32 {
			return Const(32, uint64(math.Float32bits(float32(f))))
		}
		return Const(64, math.Float64bits(f))
	}
	switch op {
	case token.ADD:
		return mkf(a + b)
	case token.SUB:
		return mkf(a - b)
	case token.MUL:
		return mkf(a * b)
	case token.QUO:
		return mkf(a / b)
	case token.EQL:
		return Bool(a == b)
	case token.NEQ:
		return Bool(a != b)
	case token.LSS:
		return Bool(a < b)
	case token.LEQ:
		return Bool(a <= b)
	case token.GTR:
		return Bool(a > b)
	case token.GEQ:
		return Bool(a >= b)
	}
	endPath("UNSUPPORTED", "float binop %s", op)
	return nil
}

// f32to64 is the exact widening conversion on bit patterns (sNaN is quieted as amd64 does).
func f32to64(x *Term) *Term {
	s := Extract(x, 31, 31)
	e := Extract(x, 30, 23)
	f := Extract(x, 22, 0)
	frac := Concat(f, Const(29, 0))
	isInfNaN := Eq(e, Const(8, 0xff))
	isNaN := And(isInfNaN, Not(Eq(f, Const(23, 0))))
	e0 := Eq(e, Const(8, 0))
	f0 := Eq(f, Const(23, 0))
	// normal
	exp := Bin(OBvAdd, Zext(11, e), Const(11, 1023-127))
	res := Concat(Concat(s, exp), frac)
	// subnormal: value = f * 2^-149; normalise with the position of the leading one
	l := Extract(bitlen(Zext(32, f)), 10, 0) // 1..23
	shift := Bin(OBvSub, Const(52, 24), Zext(52, l)) // bring the leading one to bit 23
	nf := Bin(OBvShl, Zext(52, f), shift)
	subFrac := Concat(Extract(nf, 22, 0), Const(29, 0))
	subExp := Bin(OBvAdd, Const(11, 1023-150), l)
	sub := Concat(Concat(s, subExp), subFrac)
	res = Ite(And(e0, Not(f0)), sub, res)
	res = Ite(And(e0, f0), Concat(s, Const(63, 0)), res)
	infnan := Concat(Concat(s, Const(11, 0x7ff)), Bin(OBvOr, frac, Ite(isNaN, Const(52, uint64(1)<<51), Const(52, 0))))
	res = Ite(isInfNaN, infnan, res)
	return res
}

func (m *Machine) convert(v Val, from, to types.Type) Val {
	fu, tu := from.Underlying(), to.Underlying()
	// pointer <-> unsafe.Pointer <-> uintptr
	if tb, ok := tu.(*types.Basic); ok && tb.Kind() == types.UnsafePointer {
		switch x := v.(type) {
		case Ptr:
			return x
		case PtrInt:
			return x.p
		case *Term:
			if x.IsConst() && x.c == 0 {
				return Ptr{}
			}
			endPath("MEMSAFETY", "conversion of non-pointer integer to unsafe.Pointer")
		}
	}
	if _, ok := tu.(*types.Pointer); ok {
		if p, ok := v.(Ptr); ok {
			return p
		}
	}
	if tb, ok := tu.(*types.Basic); ok && tb.Kind() == types.Uintptr {
		if p, ok := v.(Ptr); ok {
			if p.obj == nil {
				return Const(64, 0)
			}
			return PtrInt{p}
		}
	}
	if pi, ok := v.(PtrInt); ok {
		_ = pi
		if tb, ok := tu.(*types.Basic); ok && tb.Info()&types.IsInteger != 0 && basicWidth(tb) == 64 {
			return v
		}
		endPath("UNSUPPORTED", "conversion of pointer-derived uintptr to %s", to)
	}
	// string <-> []byte
	if ts, ok := tu.(*types.Slice); ok {
		if s, ok := v.(Str); ok {
			eb, _ := ts.Elem().Underlying().(*types.Basic)
			if eb != nil && eb.Kind() == types.Uint8 {
				o := m.heap.New(s.n, "bytes(string)")
				for i := 0; i < s.n; i++ {
					o.cells[i] = s.p.obj.cells[s.p.off+i]
				}
				return Slice{Ptr{o, 0}, s.n, s.n}
			}
			endPath("UNSUPPORTED", "string to %s", to)
		}
		if s, ok := v.(Slice); ok {
			return s
		}
	}
	if tb, ok := tu.(*types.Basic); ok && tb.Info()&types.IsString != 0 {
		switch x := v.(type) {
		case Slice:
			if x.n == 0 {
				return Str{}
			}
			o := m.heap.New(x.n, "string(bytes)")
			for i := 0; i < x.n; i++ {
				o.cells[i] = x.p.obj.cells[x.p.off+i]
			}
			o.ro = true
			return Str{Ptr{o, 0}, x.n}
		case Str:
			return x
		case *Term:
			// string(rune): executed through utf8.AppendRune on a fresh buffer
			f := m.prog.ImportedPackage("unicode/utf8").Func("AppendRune")
			r := x
			if fb, ok := fu.(*types.Basic); ok && basicWidth(fb) != 32 {
				if fb.Info()&types.IsUnsigned != 0 {
					r = Zext(64, x)
				} else {
					r = Sext(64, x)
				}
				// out-of-range values become U+FFFD
				bad := Or(Slt(r, Const(64, 0)), Slt(Const(64, 0x10FFFF), r))
				r = Ite(bad, Const(32, 0xFFFD), Extract(r, 31, 0))
			}
			s := m.call(f, []Val{Slice{}, r}, nil).(Slice)
			if s.n == 0 {
				return Str{}
			}
			s.p.obj.ro = true
			return Str{s.p, s.n}
		}
	}
	x, ok := v.(*Term)
	if !ok {
		endPath("UNSUPPORTED", "convert %T from %s to %s", v, from, to)
	}
	fb, _ := fu.(*types.Basic)
	tb, _ := tu.(*types.Basic)
	if fb == nil || tb == nil {
		endPath("UNSUPPORTED", "convert %s to %s", from, to)
	}
	tw := basicWidth(tb)
	switch {
	case fb.Info()&types.IsInteger != 0 && tb.Info()&types.IsInteger != 0:
		if tw <= x.w {
			return Zext(tw, x) // truncation via Extract inside Zext
		}
		if fb.Info()&types.IsUnsigned != 0 {
			return Zext(tw, x)
		}
		return Sext(tw, x)
	case fb.Info()&types.IsFloat != 0 && tb.Info()&types.IsFloat != 0:
		if x.w == tw {
			return x
		}
		if x.IsConst() {
			if tw == 64 {
				return Const(64, math.Float64bits(float64(math.Float32frombits(uint32(x.c)))))
			}
			return Const(32, uint64(math.Float32bits(float32(math.Float64frombits(x.c)))))
		}
		if tw == 64 {
			return f32to64(x)
		}
	case fb.Info()&types.IsInteger != 0 && tb.Info()&types.IsFloat != 0:
		if x.IsConst() {
			var f float64
			if fb.Info()&types.IsUnsigned != 0 {
				f = float64(x.c)
			} else {
				f = float64(sx(x.w, x.c))
			}
			if tw == 32 {
				return Const(32, uint64(math.Float32bits(float32(f))))
			}
			return Const(64, math.Float64bits(f))
		}
	case fb.Info()&types.IsFloat != 0 && tb.Info()&types.IsInteger != 0:
		if x.IsConst() {
			var f float64
			if x.w == 32 {
				f = float64(math.Float32frombits(uint32(x.c)))
			} else {
				f = math.Float64frombits(x.c)
			}
			if tb.Info()&types.IsUnsigned != 0 {
				return Const(tw, uint64(f))
			}
			return Const(tw, uint64(int64(f)))
		}
	}
	endPath("UNSUPPORTED", "convert %s to %s (symbolic=%v)", from, to, !x.IsConst())
	return nil
}


// mergeChain looks for a chain B -> B1 -> B2 ... where every block only computes pure compares and ends in an If whose
// `same` successor (true side if orChain, false side otherwise) is the common block, which has no phis. It returns the
// final other-side target, the last block of the chain (the predecessor for that target's phis) and the merged condition.
func (m *Machine) mergeChain(fr *frame, b *ssa.BasicBlock, c *Term, orChain bool) (*ssa.BasicBlock, *ssa.BasicBlock, *Term, bool) {
	si, oi := 0, 1
	if !orChain {
		si, oi = 1, 0
	}
	common := b.Succs[si]
	if len(common.Instrs) > 0 {
		if _, isPhi := common.Instrs[0].(*ssa.Phi); isPhi {
			return nil, nil, nil, false
		}
	}
	cond := c
	last := b
	cur := b.Succs[oi]
	n := 0
	for cur != common && len(cur.Preds) == 1 && len(cur.Succs) == 2 && cur.Succs[si] == common {
		ok := true
		for _, ins := range cur.Instrs[:len(cur.Instrs)-1] {
			switch y := ins.(type) {
			case *ssa.BinOp:
				_ = y
			case *ssa.Convert, *ssa.ChangeType:
			default:
				ok = false
			}
			if !ok {
				break
			}
		}
		ifi, isIf := cur.Instrs[len(cur.Instrs)-1].(*ssa.If)
		if !ok || !isIf {
			break
		}
		// evaluate pure instrs (may reference earlier values only)
		func() {
			defer func() {
				if r := recover(); r != nil {
					ok = false
				}
			}()
			for _, ins := range cur.Instrs[:len(cur.Instrs)-1] {
				v := ins.(ssa.Value)
				// division may fork/panic: only allow comparisons and bit ops
				if bo, isB := ins.(*ssa.BinOp); isB {
					switch bo.Op.String() {
					case "/", "%", "<<", ">>":
						ok = false
						return
					}
				}
				fr.locals[v] = m.evalInstr(fr, v)
			}
		}()
		if !ok {
			break
		}
		ci, isT := m.get(fr, ifi.Cond).(*Term)
		if !isT {
			break
		}
		if orChain {
			cond = Or(cond, ci)
		} else {
			cond = And(cond, ci)
		}
		last = cur
		cur = cur.Succs[oi]
		n++
	}
	if n == 0 {
		return nil, nil, nil, false
	}
	return cur, last, cond, true
}


// sameUpTo reports whether the previously executed path took the same first n decisions as p.
func (m *Machine) sameUpTo(p []int, n int) bool {
	if len(m.lastPrefix) < n {
		return false
	}
	for i := 0; i < n; i++ {
		if m.lastPrefix[i] != p[i] {
			return false
		}
	}
	return true
}


func widenIndex(t *Term, ty types.Type) *Term {
	if t.w >= 64 {
		return t
	}
	if isSigned(ty) {
		return Sext(64, t)
	}
	return Zext(64, t)
}

func (m *Machine) newMap(t *types.Map) *MapObj {
	m.heap.next++
	mo := &MapObj{id: m.heap.next, typ: t}
	mo.hdr = m.heap.New(8, "hmap")
	if m.heap.mapOf == nil {
		m.heap.mapOf = map[*Obj]*MapObj{}
	}
	m.heap.mapOf[mo.hdr] = mo
	m.heap.maps = append(m.heap.maps, mo)
	return mo
}

// valFromBits interprets bits [off*8, off*8+size) of a little-endian data word as a value of (pointer-free) type t.
func (m *Machine) valFromBits(t types.Type, bits *Term, off int) Val {
	switch u := t.Underlying().(type) {
	case *types.Basic:
		if u.Kind() == types.Bool {
			return Not(Eq(Extract(bits, uint8(off*8+7), uint8(off*8)), zero8))
		}
		w := basicWidth(u)
		if w == 255 || u.Kind() == types.String || u.Kind() == types.UnsafePointer {
			endPath("UNSUPPORTED", "symbolic table element of type %s", t)
		}
		return Extract(bits, uint8(off*8+int(w)-1), uint8(off*8))
	case *types.Struct:
		offs := sizes.Offsetsof(fieldsOf(u))
		a := make(Agg, u.NumFields())
		for i := range a {
			a[i] = m.valFromBits(u.Field(i).Type(), bits, off+int(offs[i]))
		}
		return a
	case *types.Array:
		es := sizeof(u.Elem())
		a := make(Agg, u.Len())
		for i := range a {
			a[i] = m.valFromBits(u.Elem(), bits, off+i*es)
		}
		return a
	}
	endPath("UNSUPPORTED", "symbolic table element of type %s", t)
	return nil
}
