package main

import (
	"go/types"
	"strings"

	"golang.org/x/tools/go/ssa"
)

// Emulated reflect: a reflect.Type is Iface{*reflect.rtype, Ptr{rtypeObj(T),0}}; the object is canonical per type so that
// the codec caches (keyed on the descriptor pointer) behave as in gc.

func (m *Machine) reflectPkg() *ssa.Package { return m.prog.ImportedPackage("reflect") }

func (m *Machine) rtypePtrType() types.Type {
	return types.NewPointer(m.reflectPkg().Type("rtype").Type())
}

func typeKey(t types.Type) string {
	return types.TypeString(t, func(p *types.Package) string { return p.Path() })
}

func (m *Machine) rtypeObj(t types.Type) *Obj {
	k := typeKey(t)
	if o, ok := m.rtypes[k]; ok {
		return o
	}
	o := m.heap.New(8, "rtype:"+k)
	o.ro = true
	m.rtypes[k] = o
	m.rtypeOf[o] = t
	return o
}

func (m *Machine) mkRType(t types.Type) Val {
	if t == nil {
		return Iface{}
	}
	return Iface{m.rtypePtrType(), Ptr{m.rtypeObj(t), 0}}
}

// asRType extracts the emulated type from a reflect.Type interface value or *rtype pointer.
func (m *Machine) asRType(v Val) (types.Type, bool) {
	switch x := v.(type) {
	case Iface:
		if x.t == nil {
			return nil, false
		}
		return m.asRType(x.v)
	case Ptr:
		if x.obj == nil {
			return nil, false
		}
		t, ok := m.rtypeOf[x.obj]
		return t, ok
	}
	return nil, false
}

func kindOf(t types.Type) uint64 {
	switch u := t.Underlying().(type) {
	case *types.Basic:
		switch u.Kind() {
		case types.Bool:
			return 1
		case types.Int:
			return 2
		case types.Int8:
			return 3
		case types.Int16:
			return 4
		case types.Int32:
			return 5
		case types.Int64:
			return 6
		case types.Uint:
			return 7
		case types.Uint8:
			return 8
		case types.Uint16:
			return 9
		case types.Uint32:
			return 10
		case types.Uint64:
			return 11
		case types.Uintptr:
			return 12
		case types.Float32:
			return 13
		case types.Float64:
			return 14
		case types.Complex64:
			return 15
		case types.Complex128:
			return 16
		case types.String:
			return 24
		case types.UnsafePointer:
			return 26
		}
	case *types.Array:
		return 17
	case *types.Chan:
		return 18
	case *types.Signature:
		return 19
	case *types.Interface:
		return 20
	case *types.Map:
		return 21
	case *types.Pointer:
		return 22
	case *types.Slice:
		return 23
	case *types.Struct:
		return 25
	}
	return 0
}

func (m *Machine) structFieldVal(st *types.Struct, i int) Val {
	f := st.Field(i)
	offs := sizes.Offsetsof(fieldsOf(st))
	pkgPath := ""
	if !f.Exported() && f.Pkg() != nil {
		pkgPath = f.Pkg().Path()
	}
	idx := m.heap.New(8, "sf.Index")
	m.storeBytes(Ptr{idx, 0}, 8, Const(64, uint64(i)))
	return Agg{
		m.strObj(f.Name()),
		m.strObj(pkgPath),
		m.mkRType(f.Type()),
		m.strObj(st.Tag(i)),
		Const(64, uint64(offs[i])),
		Slice{Ptr{idx, 0}, 1, 1},
		Bool(f.Embedded()),
	}
}

// rtypeMethod emulates a method call on reflect.Type.
func (m *Machine) rtypeMethod(name string, t types.Type, args []Val) Val {
	switch name {
	case "Kind":
		return Const(64, kindOf(t))
	case "Elem":
		switch u := t.Underlying().(type) {
		case *types.Pointer:
			return m.mkRType(u.Elem())
		case *types.Slice:
			return m.mkRType(u.Elem())
		case *types.Array:
			return m.mkRType(u.Elem())
		case *types.Map:
			return m.mkRType(u.Elem())
		case *types.Chan:
			return m.mkRType(u.Elem())
		}
		endPath("PANIC", "reflect: Elem of invalid type %s", t)
	case "Key":
		if u, ok := t.Underlying().(*types.Map); ok {
			return m.mkRType(u.Key())
		}
		endPath("PANIC", "reflect: Key of non-map type %s", t)
	case "Len":
		if u, ok := t.Underlying().(*types.Array); ok {
			return Const(64, uint64(u.Len()))
		}
		endPath("PANIC", "reflect: Len of non-array type %s", t)
	case "NumField":
		if u, ok := t.Underlying().(*types.Struct); ok {
			return Const(64, uint64(u.NumFields()))
		}
		endPath("PANIC", "reflect: NumField of non-struct type %s", t)
	case "Field":
		u, ok := t.Underlying().(*types.Struct)
		if !ok {
			endPath("PANIC", "reflect: Field of non-struct type %s", t)
		}
		i := m.concInt(args[0].(*Term), "Field index")
		if i < 0 || i >= u.NumFields() {
			endPath("PANIC", "reflect: Field index out of bounds")
		}
		return m.structFieldVal(u, i)
	case "Size":
		return Const(64, uint64(sizeof(t)))
	case "Align", "FieldAlign":
		return Const(64, uint64(sizes.Alignof(t)))
	case "String":
		return m.strObj(types.TypeString(t, func(p *types.Package) string { return p.Name() }))
	case "Name":
		if n, ok := t.(*types.Named); ok {
			return m.strObj(n.Obj().Name())
		}
		if b, ok := t.(*types.Basic); ok {
			return m.strObj(b.Name())
		}
		return m.strObj("")
	case "PkgPath":
		if n, ok := t.(*types.Named); ok && n.Obj().Pkg() != nil {
			return m.strObj(n.Obj().Pkg().Path())
		}
		return m.strObj("")
	case "NumMethod":
		ms := types.NewMethodSet(t)
		n := 0
		for i := 0; i < ms.Len(); i++ {
			if ms.At(i).Obj().Exported() || types.IsInterface(t) {
				n++
			}
		}
		return Const(64, uint64(n))
	case "Implements":
		u, ok := m.asRType(args[0])
		if !ok {
			endPath("PANIC", "reflect: nil type passed to Type.Implements")
		}
		it, ok := u.Underlying().(*types.Interface)
		if !ok {
			endPath("PANIC", "reflect: non-interface type passed to Type.Implements")
		}
		return Bool(types.Implements(t, it))
	case "Comparable":
		return Bool(types.Comparable(t))
	}
	endPath("UNSUPPORTED", "reflect.Type.%s", name)
	return nil
}

// reflect.Value emulation: Agg{typ Ptr(rtype obj), ptr Ptr, flag *Term} with gc's layout and flagIndir semantics.
const (
	rvFlagIndir = 1 << 7
	rvFlagAddr  = 1 << 8
)

func (m *Machine) mkRValue(t types.Type, ptr Ptr, indir, addr bool) Val {
	fl := kindOf(t)
	if indir {
		fl |= rvFlagIndir
	}
	if addr {
		fl |= rvFlagAddr
	}
	return Agg{Ptr{m.rtypeObj(t), 0}, ptr, Const(64, fl)}
}

func (m *Machine) rvParts(v Val) (types.Type, Ptr, uint64) {
	a := v.(Agg)
	tp, _ := a[0].(Ptr)
	if tp.obj == nil {
		return nil, Ptr{}, 0
	}
	return m.rtypeOf[tp.obj], a[1].(Ptr), a[2].(*Term).c
}

// rvLoad returns the Go value held by a reflect.Value.
func (m *Machine) rvLoad(v Val) (types.Type, Val) {
	t, p, fl := m.rvParts(v)
	if t == nil {
		endPath("PANIC", "reflect: call on zero Value")
	}
	if fl&rvFlagIndir != 0 {
		return t, m.Load(p, t)
	}
	// direct: ptr word is the value itself (pointer-shaped types)
	tmp := m.heap.New(8, "rv.direct")
	m.storePtrVal(Ptr{tmp, 0}, p)
	return t, m.Load(Ptr{tmp, 0}, t)
}

// rvOf builds a reflect.Value for (t, val) the way reflect.ValueOf does.
func (m *Machine) rvOf(t types.Type, val Val) Val {
	if isDirectIface(t) {
		tmp := m.heap.New(8, "rv.direct")
		m.Store(Ptr{tmp, 0}, t, val)
		d := m.loadPtrLike(Ptr{tmp, 0})
		if d == nil {
			return m.mkRValue(t, Ptr{}, false, false)
		}
		return m.mkRValue(t, m.asPtr(d), false, false)
	}
	box := m.heap.New(sizeof(t), "rv.box:"+t.String())
	m.Store(Ptr{box, 0}, t, val)
	return m.mkRValue(t, Ptr{box, 0}, true, false)
}

func (m *Machine) reflectStub(name string, fn *ssa.Function, args []Val) (Val, bool) {
	switch name {
	case "reflect.TypeOf":
		iv := args[0].(Iface)
		if iv.t == nil {
			return Iface{}, true
		}
		return m.mkRType(iv.t), true
	case "reflect.PtrTo", "reflect.PointerTo":
		t, ok := m.asRType(args[0])
		if !ok {
			endPath("PANIC", "reflect.PointerTo(nil)")
		}
		return m.mkRType(types.NewPointer(t)), true
	case "reflect.ValueOf":
		iv := args[0].(Iface)
		if iv.t == nil {
			return Agg{Ptr{}, Ptr{}, Const(64, 0)}, true
		}
		return m.rvOf(iv.t, iv.v), true
	case "reflect.Zero":
		t, _ := m.asRType(args[0])
		return m.rvOf(t, m.zeroVal(t)), true
	case "reflect.New":
		t, _ := m.asRType(args[0])
		o := m.heap.New(sizeof(t), "reflect.New:"+t.String())
		return m.mkRValue(types.NewPointer(t), Ptr{o, 0}, false, false), true
	case "reflect.NewAt":
		t, _ := m.asRType(args[0])
		return m.mkRValue(types.NewPointer(t), args[1].(Ptr), false, false), true
	case "reflect.StructOf":
		s := args[0].(Slice)
		sfT := m.reflectPkg().Type("StructField").Type()
		es := sizeof(sfT)
		var fields []*types.Var
		var tags []string
		for i := 0; i < s.n; i++ {
			sf := m.Load(Ptr{s.p.obj, s.p.off + i*es}, sfT).(Agg)
			ft, _ := m.asRType(sf[2])
			fields = append(fields, types.NewField(0, nil, m.strConcrete(sf[0].(Str)), ft, false))
			tags = append(tags, m.strConcrete(sf[3].(Str)))
		}
		return m.mkRType(types.NewStruct(fields, tags)), true
	case "(reflect.Value).Elem":
		t, val := m.rvLoad(args[0])
		switch u := t.Underlying().(type) {
		case *types.Pointer:
			p := val.(Ptr)
			if p.obj == nil {
				return Agg{Ptr{}, Ptr{}, Const(64, 0)}, true
			}
			return m.mkRValue(u.Elem(), p, true, true), true
		case *types.Interface:
			iv := val.(Iface)
			if iv.t == nil {
				return Agg{Ptr{}, Ptr{}, Const(64, 0)}, true
			}
			return m.rvOf(iv.t, iv.v), true
		}
		endPath("PANIC", "reflect: Elem of %s", t)
	case "(reflect.Value).Pointer":
		t, val := m.rvLoad(args[0])
		_ = t
		if p, ok := val.(Ptr); ok {
			if p.obj == nil {
				return Const(64, 0), true
			}
			return PtrInt{p}, true
		}
		if mo, ok := val.(*MapObj); ok {
			if mo == nil {
				return Const(64, 0), true
			}
			return PtrInt{Ptr{mo.hdr, 0}}, true
		}
		if s, ok := val.(Slice); ok {
			if s.p.obj == nil {
				return Const(64, 0), true
			}
			return PtrInt{s.p}, true
		}
		endPath("UNSUPPORTED", "reflect.Value.Pointer on %s", t)
	case "(reflect.Value).Interface":
		t, val := m.rvLoad(args[0])
		if types.IsInterface(t) {
			return val, true
		}
		return Iface{t, val}, true
	case "(reflect.Value).Set":
		t, p, fl := m.rvParts(args[0])
		if fl&rvFlagAddr == 0 {
			endPath("PANIC", "reflect: Set on unaddressable value")
		}
		st, sv := m.rvLoad(args[1])
		if types.IsInterface(t) && !types.IsInterface(st) {
			sv = Iface{st, sv} // assignment of a concrete value to an interface-typed destination boxes it
		}
		m.Store(p, t, sv)
		return nil, true
	case "(reflect.Value).IsNil":
		_, val := m.rvLoad(args[0])
		switch x := val.(type) {
		case Ptr:
			return Bool(x.obj == nil), true
		case Iface:
			return Bool(x.t == nil), true
		case *MapObj:
			return Bool(x == nil), true
		case Slice:
			return Bool(x.p.obj == nil), true
		case *Closure:
			return Bool(x == nil), true
		}
	case "(reflect.Value).Kind":
		_, _, fl := m.rvParts(args[0])
		return Const(64, fl&31), true
	case "(reflect.Value).Len":
		_, val := m.rvLoad(args[0])
		switch x := val.(type) {
		case Slice:
			return Const(64, uint64(x.n)), true
		case Str:
			return Const(64, uint64(x.n)), true
		case *MapObj:
			if x == nil {
				return Const(64, 0), true
			}
			return Const(64, uint64(len(x.entries))), true
		case Agg:
			return Const(64, uint64(len(x))), true
		}
	}
	if r, ok := m.reflectValueStub(name, fn, args); ok {
		return r, true
	}
	if strings.HasPrefix(name, "(*reflect.rtype).") {
		t, ok := m.asRType(args[0])
		if ok {
			return m.rtypeMethod(strings.TrimPrefix(name, "(*reflect.rtype)."), t, args[1:]), true
		}
	}
	return nil, false
}

func (m *Machine) isZeroTerm(t types.Type, v Val) *Term {
	switch x := v.(type) {
	case *Term:
		if x.w == 0 {
			return Not(x)
		}
		if isFloat(t) {
			// +0 only (reflect.IsZero uses bits == 0)
			return Eq(x, Const(x.w, 0))
		}
		return Eq(x, Const(x.w, 0))
	case Ptr:
		return Bool(x.obj == nil)
	case Str:
		return Bool(x.n == 0)
	case Slice:
		return Bool(x.p.obj == nil)
	case Iface:
		return Bool(x.t == nil)
	case *MapObj:
		return Bool(x == nil)
	case *Closure:
		return Bool(x == nil)
	case Agg:
		r := Bool(true)
		switch u := t.Underlying().(type) {
		case *types.Struct:
			for i := range x {
				r = And(r, m.isZeroTerm(u.Field(i).Type(), x[i]))
			}
		case *types.Array:
			for i := range x {
				r = And(r, m.isZeroTerm(u.Elem(), x[i]))
			}
		}
		return r
	}
	endPath("UNSUPPORTED", "IsZero of %T", v)
	return nil
}

type mapIterState struct {
	mo *MapObj
	i  int
}

func (m *Machine) reflectValueStub(name string, fn *ssa.Function, args []Val) (Val, bool) {
	switch name {
	case "(reflect.Value).IsValid":
		t, _, _ := m.rvParts(args[0])
		return Bool(t != nil), true
	case "(reflect.Value).Type":
		t, _, _ := m.rvParts(args[0])
		if t == nil {
			endPath("PANIC", "reflect: Type of zero Value")
		}
		return m.mkRType(t), true
	case "(reflect.Value).IsZero":
		t, v := m.rvLoad(args[0])
		return m.isZeroTerm(t, v), true
	case "(reflect.Value).Bool":
		_, v := m.rvLoad(args[0])
		return v, true
	case "(reflect.Value).Int":
		_, v := m.rvLoad(args[0])
		return Sext(64, v.(*Term)), true
	case "(reflect.Value).Uint":
		_, v := m.rvLoad(args[0])
		return Zext(64, v.(*Term)), true
	case "(reflect.Value).Float":
		t, v := m.rvLoad(args[0])
		return m.convert(v, t, types.Typ[types.Float64]), true
	case "(reflect.Value).String":
		_, v := m.rvLoad(args[0])
		if s, ok := v.(Str); ok {
			return s, true
		}
		return m.strObj("<non-string Value>"), true
	case "(reflect.Value).Bytes":
		_, v := m.rvLoad(args[0])
		return v, true
	case "(reflect.Value).SetBool", "(reflect.Value).SetInt", "(reflect.Value).SetUint", "(reflect.Value).SetString", "(reflect.Value).SetBytes", "(reflect.Value).SetFloat":
		t, p, fl := m.rvParts(args[0])
		if fl&rvFlagAddr == 0 {
			endPath("PANIC", "reflect: %s on unaddressable value", name)
		}
		v := args[1]
		if x, ok := v.(*Term); ok && x.w != 0 {
			if b, ok := t.Underlying().(*types.Basic); ok {
				if isFloat(t) {
					v = m.convert(x, types.Typ[types.Float64], t)
				} else {
					v = Zext(basicWidth(b), x)
				}
			}
		}
		m.Store(p, t, v)
		return nil, true
	case "(reflect.Value).Field":
		t, p, fl := m.rvParts(args[0])
		st, ok := t.Underlying().(*types.Struct)
		if !ok {
			endPath("PANIC", "reflect: Field of non-struct %s", t)
		}
		i := m.concInt(args[1].(*Term), "Field index")
		if i < 0 || i >= st.NumFields() {
			endPath("PANIC", "reflect: Field index out of range")
		}
		offs := sizes.Offsetsof(fieldsOf(st))
		if fl&rvFlagIndir != 0 {
			return m.mkRValue(st.Field(i).Type(), Ptr{p.obj, p.off + int(offs[i])}, true, fl&rvFlagAddr != 0), true
		}
		return m.mkRValue(st.Field(i).Type(), p, false, false), true
	case "(reflect.Value).FieldByIndex":
		v := args[0]
		idx := args[1].(Slice)
		for k := 0; k < idx.n; k++ {
			i := m.loadBytes(Ptr{idx.p.obj, idx.p.off + 8*k}, 8)
			t, val := m.rvLoad(v)
			if _, isPtr := t.Underlying().(*types.Pointer); isPtr && k > 0 {
				_ = val
				v, _ = m.reflectStub("(reflect.Value).Elem", nil, []Val{v})
			}
			v, _ = m.reflectValueStub("(reflect.Value).Field", nil, []Val{v, i})
		}
		return v, true
	case "(reflect.Value).Addr":
		t, p, fl := m.rvParts(args[0])
		if fl&rvFlagAddr == 0 {
			endPath("PANIC", "reflect: Addr of unaddressable value")
		}
		return m.mkRValue(types.NewPointer(t), p, false, false), true
	case "(reflect.Value).Index":
		t, v := m.rvLoad(args[0])
		i := m.concInt(args[1].(*Term), "Index")
		switch u := t.Underlying().(type) {
		case *types.Slice:
			s := v.(Slice)
			if i < 0 || i >= s.n {
				endPath("PANIC", "reflect: slice index out of range")
			}
			return m.mkRValue(u.Elem(), Ptr{s.p.obj, s.p.off + i*sizeof(u.Elem())}, true, true), true
		case *types.Array:
			_, p, fl := m.rvParts(args[0])
			if i < 0 || i >= int(u.Len()) {
				endPath("PANIC", "reflect: array index out of range")
			}
			return m.mkRValue(u.Elem(), Ptr{p.obj, p.off + i*sizeof(u.Elem())}, true, fl&rvFlagAddr != 0), true
		}
		endPath("UNSUPPORTED", "reflect Index on %s", t)
	case "reflect.MakeSlice":
		t, _ := m.asRType(args[0])
		n := m.concInt(args[1].(*Term), "MakeSlice len")
		c := m.concInt(args[2].(*Term), "MakeSlice cap")
		if n < 0 {
			endPath("PANIC", "reflect.MakeSlice: negative len")
		}
		if c < n {
			endPath("PANIC", "reflect.MakeSlice: len > cap")
		}
		et := t.Underlying().(*types.Slice).Elem()
		o := m.heap.New(c*sizeof(et), "reflect.MakeSlice")
		return m.rvOf(t, Slice{Ptr{o, 0}, n, c}), true
	case "reflect.MakeMapWithSize", "reflect.MakeMap":
		t, _ := m.asRType(args[0])
		return m.rvOf(t, m.newMap(t.Underlying().(*types.Map))), true
	case "reflect.MapOf":
		k, _ := m.asRType(args[0])
		e, _ := m.asRType(args[1])
		return m.mkRType(types.NewMap(k, e)), true
	case "(reflect.Value).MapKeys":
		_, mv := m.rvLoad(args[0])
		mo := mv.(*MapObj)
		vt := m.reflectPkg().Type("Value").Type()
		n := 0
		if mo != nil {
			n = len(mo.entries)
		}
		es := sizeof(vt)
		o := m.heap.New(n*es, "reflect.MapKeys")
		for i := 0; i < n; i++ {
			m.Store(Ptr{o, i * es}, vt, m.rvOf(mo.typ.Key(), mo.entries[i].k))
		}
		return Slice{Ptr{o, 0}, n, n}, true
	case "(reflect.Value).MapIndex":
		_, mv := m.rvLoad(args[0])
		mo := mv.(*MapObj)
		_, kv := m.rvLoad(args[1])
		if mo != nil {
			for _, e := range mo.entries {
				if m.branch(m.valEq(mo.typ.Key(), e.k, kv)) {
					return m.rvOf(mo.typ.Elem(), m.Load(Ptr{e.vobj, 0}, mo.typ.Elem())), true
				}
			}
		}
		return Agg{Ptr{}, Ptr{}, Const(64, 0)}, true
	case "reflect.ArrayOf":
		n := m.concInt(args[0].(*Term), "ArrayOf length")
		t, _ := m.asRType(args[1])
		if n < 0 {
			endPath("PANIC", "reflect: negative length passed to ArrayOf")
		}
		return m.mkRType(types.NewArray(t, int64(n))), true
	case "reflect.Copy":
		dt, dv := m.rvLoad(args[0])
		st, sv := m.rvLoad(args[1])
		view := func(t types.Type, v Val, rv Val) (Ptr, int, types.Type) {
			switch u := t.Underlying().(type) {
			case *types.Slice:
				s := v.(Slice)
				return s.p, s.n, u.Elem()
			case *types.Array:
				_, p, _ := m.rvParts(rv)
				return p, int(u.Len()), u.Elem()
			}
			endPath("PANIC", "reflect.Copy of %s", t)
			return Ptr{}, 0, nil
		}
		dp, dn, de := view(dt, dv, args[0])
		sp, sn, _ := view(st, sv, args[1])
		n := min(dn, sn)
		if n > 0 {
			m.copyCells(dp, sp, n*sizeof(de))
		}
		return Const(64, uint64(n)), true
	case "(reflect.Value).SetMapIndex":
		_, mv := m.rvLoad(args[0])
		_, kv := m.rvLoad(args[1])
		_, ev := m.rvLoad(args[2])
		m.mapUpdate(mv.(*MapObj), kv, ev)
		return nil, true
	case "(reflect.Value).MapRange":
		_, mv := m.rvLoad(args[0])
		o := m.heap.New(64, "reflect.MapIter")
		m.mapIters[o] = &mapIterState{mv.(*MapObj), -1}
		return Ptr{o, 0}, true
	case "(*reflect.MapIter).Next":
		st := m.mapIters[args[0].(Ptr).obj]
		st.i++
		return Bool(st.mo != nil && st.i < len(st.mo.entries)), true
	case "(*reflect.MapIter).Key":
		st := m.mapIters[args[0].(Ptr).obj]
		return m.rvOf(st.mo.typ.Key(), st.mo.entries[st.i].k), true
	case "(*reflect.MapIter).Value":
		st := m.mapIters[args[0].(Ptr).obj]
		return m.rvOf(st.mo.typ.Elem(), m.Load(Ptr{st.mo.entries[st.i].vobj, 0}, st.mo.typ.Elem())), true
	}
	return nil, false
}
