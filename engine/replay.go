package main

import (
	"bytes"
	"context"
	"encoding/json"
	"fmt"
	"os"
	"os/exec"
	"path/filepath"
	"regexp"
	"sort"
	"strings"
	"time"
)

// ReplayFile is what `VIOLATION ... replay=<path>` points to: everything needed to re-run the counterexample natively.
type ReplayFile struct {
	Property string         `json:"property"`
	Unit     string         `json:"unit"`
	Dir      string         `json:"dir"`
	Pkg      string         `json:"pkg"`
	Overlay  []string       `json:"overlay"`
	Harness  string         `json:"harness"`
	Sets     map[string]int `json:"sets"`
	Kind     string         `json:"kind"`
	ID       string         `json:"id"`
	Msg      string         `json:"msg"`
	Witness  []uint64       `json:"witness"`
	Env      int            `json:"env_nondets"`
	HangIsBug bool          `json:"hang_is_violation,omitempty"`
}

type replayResult struct {
	verdict string // confirmed | unconfirmed | modelbug | error
	detail  string
}

var nonWord = regexp.MustCompile(`[^A-Za-z0-9_.-]+`)

func replayViolation(prop string, v vioRec) (string, replayResult) {
	u := v.unit
	rf := &ReplayFile{Property: prop, Unit: u.Name, Dir: u.Dir, Pkg: u.Pkg, Overlay: u.Overlay, Harness: u.Harness, Sets: v.sets, Kind: v.v.Kind, ID: v.v.ID, Msg: v.v.Msg, Witness: v.v.Witness, Env: v.v.EnvNondets, HangIsBug: u.HangIsBug}
	if rf.Dir == "" {
		rf.Dir = repoRoot()
	} else {
		rf.Dir = harnessPath(rf.Dir)
	}
	name := nonWord.ReplaceAllString(fmt.Sprintf("%s-%s-%s-%s", prop, u.Name, v.v.Kind, v.v.ID), "_")
	if len(name) > 120 {
		name = name[:120]
	}
	dir := filepath.Join(verifRoot(), "replays")
	os.MkdirAll(dir, 0o755)
	path := filepath.Join(dir, name+".json")
	b, _ := json.MarshalIndent(rf, "", " ")
	os.WriteFile(path, append(b, '\n'), 0o644)
	return path, runReplay(rf)
}

type nativeOut struct {
	Failed    []string `json:"failed"`
	ModelBugs []string `json:"model_bugs"`
	Covered   []string `json:"covered"`
	Observed  []string `json:"observed"`
	Panic     string   `json:"panic"`
	AssumeBad bool     `json:"assume_bad"`
}

func runReplay(rf *ReplayFile) replayResult {
	tmp, err := os.MkdirTemp("", "vfreplay")
	if err != nil {
		return replayResult{"error", err.Error()}
	}
	defer os.RemoveAll(tmp)
	pkgDir := filepath.Join(rf.Dir, rf.Pkg)
	repl := map[string]string{}
	pkgName := ""
	for _, d := range rf.Overlay {
		d = harnessPath(d)
		files, _ := filepath.Glob(filepath.Join(d, "*.go"))
		sort.Strings(files)
		inPlace := filepath.Clean(d) == filepath.Clean(pkgDir)
		for _, f := range files {
			if strings.HasSuffix(f, "_test.go") {
				continue
			}
			if pkgName == "" {
				src, _ := os.ReadFile(f)
				pkgName = packageClause(src)
			}
			if !inPlace {
				repl[filepath.Join(pkgDir, "zz_vf_"+filepath.Base(f))] = f
			}
		}
	}
	if pkgName == "" {
		return replayResult{"error", "no harness files"}
	}
	rp := filepath.Join(tmp, "vf_replay.go")
	os.WriteFile(rp, []byte(replaySource(pkgName)), 0o644)
	repl[filepath.Join(pkgDir, "zz_vf_replay.go")] = rp
	var sb strings.Builder
	fmt.Fprintf(&sb, "package %s\n\nimport (\n\t\"encoding/json\"\n\t\"fmt\"\n\t\"testing\"\n)\n\n", pkgName)
	fmt.Fprintf(&sb, "func TestVFReplay(t *testing.T) {\n")
	var names []string
	for k := range rf.Sets {
		names = append(names, k)
	}
	sort.Strings(names)
	for _, k := range names {
		fmt.Fprintf(&sb, "\t%s = %d\n", k, rf.Sets[k])
	}
	fmt.Fprintf(&sb, "\tvfWitness = []uint64{")
	for i, w := range rf.Witness {
		if i > 0 {
			sb.WriteString(", ")
		}
		fmt.Fprintf(&sb, "%d", w)
	}
	fmt.Fprintf(&sb, "}\n")
	fmt.Fprintf(&sb, `	out := map[string]any{}
	func() {
		defer func() {
			if r := recover(); r != nil {
				out["panic"] = fmt.Sprint(r)
			}
		}()
		%s()
		vfAllocCheck()
	}()
	out["failed"] = vfFailed
	out["model_bugs"] = vfModelBugs
	out["covered"] = vfCovered
	out["observed"] = vfObserved
	out["assume_bad"] = vfAssumeBad
	b, _ := json.Marshal(out)
	fmt.Printf("VFREPLAY %%s\n", b)
}
`, rf.Harness)
	tp := filepath.Join(tmp, "vf_replay_test.go")
	os.WriteFile(tp, []byte(sb.String()), 0o644)
	repl[filepath.Join(pkgDir, "zz_vf_replay_test.go")] = tp
	ob, _ := json.Marshal(map[string]any{"Replace": repl})
	op := filepath.Join(tmp, "overlay.json")
	os.WriteFile(op, ob, 0o644)

	args := []string{"test", "-v", "-vet=off", "-count=1", "-tags", "verif", "-run", "^TestVFReplay$", "-overlay", op, "-timeout", "120s"}
	if rf.Kind == "MEMSAFETY" {
		args = append(args, "-gcflags=all=-d=checkptr")
	}
	args = append(args, rf.Pkg)
	ctx, cancel := context.WithTimeout(context.Background(), 300*time.Second)
	defer cancel()
	cmd := exec.CommandContext(ctx, "go", args...)
	cmd.Dir = rf.Dir
	cmd.Env = append(os.Environ(), "GOFLAGS=-mod=mod", "GOPROXY=off", "GOSUMDB=off", "GOTOOLCHAIN=local")
	var outb bytes.Buffer
	cmd.Stdout = &outb
	cmd.Stderr = &outb
	runErr := cmd.Run()
	out := outb.String()
	var no nativeOut
	found := false
	for _, l := range strings.Split(out, "\n") {
		if strings.HasPrefix(l, "VFREPLAY ") {
			if json.Unmarshal([]byte(l[len("VFREPLAY "):]), &no) == nil {
				found = true
			}
		}
	}
	tail := out
	if len(tail) > 600 {
		tail = tail[len(tail)-600:]
	}
	if !found {
		// the test binary died (fatal error, stack overflow, checkptr, timeout) or did not build
		if strings.Contains(out, "[build failed]") || strings.Contains(out, "[setup failed]") {
			return replayResult{"error", "replay build failed: " + tail}
		}
		if runErr != nil && (rf.Kind == "PANIC" || rf.Kind == "MEMSAFETY" || rf.HangIsBug) {
			return replayResult{"confirmed", "native run crashed: " + lastLines(out, 6)}
		}
		return replayResult{"unconfirmed", "no replay output: " + tail}
	}
	if no.AssumeBad {
		return replayResult{"unconfirmed", "witness violates a harness assumption natively: " + no.Panic}
	}
	if len(no.ModelBugs) > 0 {
		return replayResult{"modelbug", strings.Join(no.ModelBugs, ",")}
	}
	switch rf.Kind {
	case "ASSERT":
		for _, f := range no.Failed {
			if f == rf.ID {
				return replayResult{"confirmed", fmt.Sprintf("assertion %q fails natively (failed=%v panic=%q)", rf.ID, no.Failed, no.Panic)}
			}
		}
		if no.Panic != "" {
			return replayResult{"confirmed", "native run panicked before the assertion: " + no.Panic}
		}
	case "PANIC", "MEMSAFETY":
		if no.Panic != "" {
			return replayResult{"confirmed", "native panic: " + no.Panic}
		}
		if len(no.Failed) > 0 {
			return replayResult{"confirmed", fmt.Sprintf("native assertions failed: %v", no.Failed)}
		}
	case "ALLOC":
		for _, f := range no.Failed {
			if f == "alloc-limit" {
				return replayResult{"confirmed", "native allocation exceeded the limit"}
			}
		}
		if no.Panic != "" {
			return replayResult{"confirmed", "native panic: " + no.Panic}
		}
	case "BUDGET":
		if runErr != nil {
			return replayResult{"confirmed", "native run did not finish: " + lastLines(out, 4)}
		}
	}
	return replayResult{"unconfirmed", fmt.Sprintf("native failed=%v panic=%q", no.Failed, no.Panic)}
}

func lastLines(s string, n int) string {
	ls := strings.Split(strings.TrimSpace(s), "\n")
	if len(ls) > n {
		ls = ls[len(ls)-n:]
	}
	return strings.Join(ls, " | ")
}

func replayMain(args []string) int {
	if len(args) < 1 {
		fmt.Fprintln(os.Stderr, "usage: vf replay <path>")
		return 2
	}
	b, err := os.ReadFile(args[0])
	if err != nil {
		fmt.Fprintln(os.Stderr, err)
		return 2
	}
	var rf ReplayFile
	if err := json.Unmarshal(b, &rf); err != nil {
		fmt.Fprintln(os.Stderr, err)
		return 2
	}
	r := runReplay(&rf)
	fmt.Printf("replay %s unit=%s harness=%s sets=%v kind=%s id=%s\n  witness=%s\n  verdict=%s: %s\n", rf.Property, rf.Unit, rf.Harness, rf.Sets, rf.Kind, rf.ID, strings.TrimSpace(witnessStr(rf.Witness)), r.verdict, r.detail)
	if r.verdict == "confirmed" {
		return 1
	}
	if r.verdict == "unconfirmed" {
		return 0
	}
	return 2
}
