package main

import (
	"os"
	"syscall"
	"bufio"
	"fmt"
	"io"
	"os/exec"
	"strconv"
	"strings"
	"time"
)

type Solver struct {
	cmd     *exec.Cmd
	in      io.WriteCloser
	out     *bufio.Reader
	depth   int
	Queries int
	Sat     int
	Unsat   int
	Unknown int
	Time    time.Duration
	log     io.Writer
	timeoutMs int
	dead    bool
}

var solverGen int

var liveSolver *Solver

// NewSolver returns a fresh solver context. The z3 process of the previous job of this worker is reused through
// (reset) when the per-query timeout is unchanged; every term must be re-emitted (solverGen).
func NewSolver(timeoutMs int) *Solver {
	solverGen++
	if timeoutMs == 0 {
		timeoutMs = 10000
	}
	if s := liveSolver; s != nil && s.timeoutMs == timeoutMs && !s.dead {
		s.depth = 0
		s.Queries, s.Sat, s.Unsat, s.Unknown, s.Time = 0, 0, 0, 0, 0
		s.log = nil
		s.send("(reset)\n(set-option :global-declarations true)\n(set-option :produce-models true)\n")
		return s
	}
	if liveSolver != nil {
		liveSolver.kill()
	}
	cmd := exec.Command(solverBin(), "-in", fmt.Sprintf("-t:%d", timeoutMs))
	// z3 grows and shrinks its heap on every query; glibc's default trimming turns that into ~50k page faults/s per
	// process (more kernel than user time with 16 workers). Keep the heap top instead.
	cmd.Env = append(os.Environ(), "MALLOC_TRIM_THRESHOLD_=2000000000", "MALLOC_TOP_PAD_=134217728", "MALLOC_MMAP_THRESHOLD_=1073741824")
	// blocking pipes: a query is a synchronous round trip, the runtime poller only adds latency
	var p1, p2 [2]int
	if err := syscall.Pipe(p1[:]); err != nil {
		panic(err)
	}
	if err := syscall.Pipe(p2[:]); err != nil {
		panic(err)
	}
	syscall.CloseOnExec(p1[1])
	syscall.CloseOnExec(p2[0])
	childIn, in := os.NewFile(uintptr(p1[0]), "z3-stdin"), os.NewFile(uintptr(p1[1]), "z3-stdin-w")
	out, childOut := os.NewFile(uintptr(p2[0]), "z3-stdout-r"), os.NewFile(uintptr(p2[1]), "z3-stdout")
	cmd.Stdin, cmd.Stdout, cmd.Stderr = childIn, childOut, childOut
	if err := cmd.Start(); err != nil {
		panic(err)
	}
	childIn.Close()
	childOut.Close()
	s := &Solver{cmd: cmd, in: in, out: bufio.NewReaderSize(out, 1<<20), timeoutMs: timeoutMs}
	liveSolver = s
	s.send("(set-option :global-declarations true)\n(set-option :produce-models true)\n")
	return s
}

func (s *Solver) send(x string) {
	if s.dead {
		return
	}
	if s.log != nil {
		io.WriteString(s.log, x)
	}
	io.WriteString(s.in, x)
}

// Close ends a job; the process stays for the next job of this worker.
func (s *Solver) Close() {}

func (s *Solver) kill() {
	s.dead = true
	s.in.Close()
	s.cmd.Process.Kill()
	s.cmd.Wait()
	if liveSolver == s {
		liveSolver = nil
	}
}

func (s *Solver) Push() { s.send("(push)\n"); s.depth++ }
func (s *Solver) Pop(n int) {
	if n <= 0 {
		return
	}
	s.send(fmt.Sprintf("(pop %d)\n", n))
	s.depth -= n
}

func (s *Solver) Assert(t *Term) {
	var sb strings.Builder
	emitDefs(t, &sb)
	fmt.Fprintf(&sb, "(assert %s)\n", ref(t))
	s.send(sb.String())
}

// Check returns "sat", "unsat" or "unknown".
func (s *Solver) Check() string {
	t0 := time.Now()
	s.send("(check-sat)\n")
	// z3 occasionally ignores its own -t limit; a hard limit kills the process and the query counts as unknown
	// (the caller rebuilds the solver context from the path condition)
	line, ok := s.readLineTimeout(time.Duration(s.timeoutMs+15000) * time.Millisecond)
	if !ok {
		s.Time += time.Since(t0)
		s.Queries++
		s.Unknown++
		return "unknown"
	}
	s.Time += time.Since(t0)
	s.Queries++
	switch line {
	case "sat":
		s.Sat++
	case "unsat":
		s.Unsat++
	default:
		s.Unknown++
		if line != "unknown" {
			s.dead = true
			panic("solver said: " + line)
		}
	}
	return line
}

func (s *Solver) readLineTimeout(d time.Duration) (string, bool) {
	type res struct {
		l   string
		err error
	}
	ch := make(chan res, 1)
	go func() {
		l, err := s.out.ReadString('\n')
		ch <- res{l, err}
	}()
	select {
	case r := <-ch:
		if r.err != nil {
			s.dead = true
			panic("solver died: " + r.err.Error() + " " + r.l)
		}
		l := strings.TrimSpace(r.l)
		if strings.HasPrefix(l, "(error") {
			s.dead = true
			panic("solver error: " + l)
		}
		return l, true
	case <-time.After(d):
		s.dead = true
		s.cmd.Process.Kill()
		<-ch
		s.cmd.Wait()
		if liveSolver == s {
			liveSolver = nil
		}
		return "", false
	}
}

func (s *Solver) readRawTimeout(d time.Duration) (string, bool) {
	type res struct {
		l   string
		err error
	}
	ch := make(chan res, 1)
	go func() {
		l, err := s.out.ReadString('\n')
		ch <- res{l, err}
	}()
	select {
	case r := <-ch:
		if r.err != nil {
			s.dead = true
			panic("solver died in get-value")
		}
		return r.l, true
	case <-time.After(d):
		s.dead = true
		s.cmd.Process.Kill()
		<-ch
		s.cmd.Wait()
		if liveSolver == s {
			liveSolver = nil
		}
		return "", false
	}
}

func (s *Solver) readLine() string {
	l, err := s.out.ReadString('\n')
	if err != nil {
		s.dead = true
		panic("solver died: " + err.Error() + " " + l)
	}
	l = strings.TrimSpace(l)
	if strings.HasPrefix(l, "(error") {
		s.dead = true
		panic("solver error: " + l)
	}
	return l
}

// CheckWith checks pc ∧ extra without changing the assertion stack.
func (s *Solver) CheckWith(extra *Term) string {
	s.Push()
	s.Assert(extra)
	r := s.Check()
	s.Pop(1)
	return r
}

// Model fetches values of the given vars after a sat answer (must be called before pop).
func (s *Solver) Model(vars []*Term) map[string]uint64 {
	m := map[string]uint64{}
	if len(vars) == 0 {
		return m
	}
	var sb strings.Builder
	sb.WriteString("(get-value (")
	cnt := 0
	for _, v := range vars {
		if v.defGen != solverGen {
			continue
		}
		cnt++
		sb.WriteString(v.name)
		sb.WriteByte(' ')
	}
	if cnt == 0 {
		return m
	}
	sb.WriteString("))\n")
	s.send(sb.String())
	// read balanced s-expression
	depth := 0
	var buf strings.Builder
	for {
		l, ok := s.readRawTimeout(time.Duration(s.timeoutMs+15000) * time.Millisecond)
		if !ok {
			return m // solver killed: the caller sees s.dead
		}
		buf.WriteString(l)
		for _, c := range l {
			if c == '(' {
				depth++
			} else if c == ')' {
				depth--
			}
		}
		if depth <= 0 {
			break
		}
	}
	txt := buf.String()
	if strings.Contains(txt, "(error") {
		s.dead = true
		panic("solver error: " + txt)
	}
	// parse pairs (name value)
	toks := strings.Fields(strings.NewReplacer("(", " ", ")", " ").Replace(txt))
	for i := 0; i+1 < len(toks); i += 2 {
		name, val := toks[i], toks[i+1]
		var v uint64
		switch {
		case val == "true":
			v = 1
		case val == "false":
			v = 0
		case strings.HasPrefix(val, "#x"):
			v, _ = strconv.ParseUint(val[2:], 16, 64)
		case strings.HasPrefix(val, "#b"):
			v, _ = strconv.ParseUint(val[2:], 2, 64)
		}
		m[name] = v
	}
	return m
}

func solverBin() string {
	if s := os.Getenv("VF_SOLVER"); s != "" {
		return s
	}
	return "z3-new"
}
