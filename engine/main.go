// vf: bounded symbolic executor for Go SSA (built for the segmentio/encoding verification task).
//
//	vf worker  -dir /repo -pkg ./json -overlay /verif/harness/json     (job lines on stdin, result lines on stdout)
//	vf run     -pkg ./json -overlay ... -harness vfH_x -set vfLen=3    (one job, human readable; debugging)
//	vf check   <ID> [--tier quick|thorough] [--jobs N]                  (the registered checks; see driver.go)
//	vf replay  <path>                                                  (native replay of a stored witness)
//go:debug gotypesalias=0
package main

import (
	"encoding/json"
	"flag"
	"fmt"
	"os"
	"runtime"
	"runtime/debug"
	"runtime/pprof"
	"sort"
	"strings"
)

func main() {
	debug.SetGCPercent(200)
	if len(os.Args) < 2 {
		fmt.Fprintln(os.Stderr, "usage: vf worker|run|check|replay|selftest ...")
		os.Exit(2)
	}
	switch os.Args[1] {
	case "worker":
		workerMain(os.Args[2:])
	case "run":
		runMain(os.Args[2:])
	case "check":
		os.Exit(checkMain(os.Args[2:]))
	case "replay":
		os.Exit(replayMain(os.Args[2:]))
	default:
		fmt.Fprintln(os.Stderr, "unknown subcommand", os.Args[1])
		os.Exit(2)
	}
}

type loadFlags struct {
	dir, pkg, overlay, tags string
}

func (lf *loadFlags) register(fs *flag.FlagSet) {
	fs.StringVar(&lf.dir, "dir", "/repo", "module dir")
	fs.StringVar(&lf.pkg, "pkg", "./iso8601", "package pattern relative to -dir")
	fs.StringVar(&lf.overlay, "overlay", "", "comma-separated directories whose *.go files are overlaid into the package dir")
	fs.StringVar(&lf.tags, "tags", "purego,verif,math_big_pure_go", "build tags")
}

func runMain(args []string) {
	fs := flag.NewFlagSet("run", flag.ExitOnError)
	var lf loadFlags
	lf.register(fs)
	harness := fs.String("harness", "", "harness function name")
	maxPaths := fs.Int("maxpaths", 100000, "path budget")
	maxSteps := fs.Int("maxsteps", 4000000, "step budget per path")
	initPkgs := fs.String("initpkgs", "", "comma-separated extra package paths whose init is executed")
	trace := fs.Bool("trace", false, "trace instructions")
	smtlog := fs.String("smtlog", "", "write SMT-LIB transcript")
	timeout := fs.Int("timeout", 10000, "solver per-query timeout ms")
	noinit := fs.Bool("noinit", false, "do not run the target package's init")
	sets := fs.String("set", "", "comma-separated global=int assignments")
	prof := fs.String("cpuprofile", "", "write cpu profile")
	frontier := fs.Int("frontier", 0, "frontier depth (0 = full exploration)")
	concrete := fs.String("concrete", "", "comma-separated concrete nondet vector (concrete mode)")
	jsonOut := fs.Bool("json", false, "print the raw result JSON")
	warm := fs.String("warm", "", "warm-up function run once before the snapshot")
	concret := fs.String("concret", "", "comma-separated functions whose result is concretised eagerly")
	fs.Parse(args)
	if *prof != "" {
		f, _ := os.Create(*prof)
		pprof.StartCPUProfile(f)
		defer pprof.StopCPUProfile()
	}
	ld, err := loadProgram(lf)
	if err != nil {
		fmt.Fprintln(os.Stderr, err)
		os.Exit(2)
	}
	job := &Job{Harness: *harness, MaxPaths: *maxPaths, MaxSteps: *maxSteps, TimeoutMs: *timeout, NoInit: *noinit, Frontier: *frontier, Sets: map[string]int{}, Warm: *warm}
	for _, s := range strings.Split(*initPkgs, ",") {
		if s != "" {
			job.InitPkgs = append(job.InitPkgs, s)
		}
	}
	for _, s := range strings.Split(*concret, ",") {
		if s != "" {
			job.ConcRet = append(job.ConcRet, s)
		}
	}
	for _, kv := range strings.Split(*sets, ",") {
		if kv == "" {
			continue
		}
		parts := strings.SplitN(kv, "=", 2)
		var v int
		fmt.Sscanf(parts[1], "%d", &v)
		job.Sets[parts[0]] = v
	}
	if *concrete != "" {
		job.Concrete = []uint64{}
		for _, s := range strings.Split(*concrete, ",") {
			var v uint64
			fmt.Sscanf(s, "%d", &v)
			job.Concrete = append(job.Concrete, v)
		}
	}
	runtime.GOMAXPROCS(1)
	res := runJob(ld, job, *trace, *smtlog)
	if *jsonOut {
		b, _ := json.MarshalIndent(res, "", " ")
		fmt.Println(string(b))
	} else {
		printResult(res, ld.loadS)
	}
	if len(res.Violations) > 0 {
		pprof.StopCPUProfile()
		os.Exit(1)
	}
}

func printResult(r *Result, loadS float64) {
	fmt.Printf("harness=%s load=%.2fs explore=%.2fs paths=%d forks=%d steps=%d concretize=%d domDecided=%d cacheHits=%d\n", r.Harness, loadS, r.WallS, r.Paths, r.Forks, r.Steps, r.Concretize, r.DomDecided, r.CacheHits)
	fmt.Printf("asserts=%d discharged=%d unknown=%d | solver queries=%d sat=%d unsat=%d unknown=%d time=%.2fs\n", r.Asserts, r.Discharged, r.Unknown, r.Queries, r.Sat, r.Unsat, r.SolverUnknown, r.SolverS)
	if r.Err != "" {
		fmt.Printf("ENGINE ERROR: %s\n", r.Err)
	}
	fmt.Printf("path ends: %v\n", r.Ends)
	for k, v := range r.EndSamples {
		fmt.Printf("  sample %s: %s\n", k, v)
	}
	var cs []string
	for c, n := range r.Covers {
		cs = append(cs, fmt.Sprintf("%s:%d", c, n))
	}
	sort.Strings(cs)
	fmt.Printf("covers: %s\n", strings.Join(cs, " "))
	var fns []string
	for f, n := range r.Funcs {
		fns = append(fns, fmt.Sprintf("%s×%d", f, n))
	}
	sort.Strings(fns)
	fmt.Printf("functions executed (%d): %s\n", len(fns), strings.Join(fns, " "))
	var st []string
	for f, n := range r.Stubs {
		st = append(st, fmt.Sprintf("%s×%d", f, n))
	}
	sort.Strings(st)
	fmt.Printf("stubs hit: %s\n", strings.Join(st, " "))
	if len(r.Frontier) > 0 {
		fmt.Printf("frontier prefixes: %d\n", len(r.Frontier))
	}
	for i, v := range r.Violations {
		if i >= 10 {
			fmt.Printf("... %d more violations\n", len(r.Violations)-10)
			break
		}
		fmt.Printf("VIOLATION kind=%s id=%s %s\n  witness: %s\n", v.Kind, v.ID, v.Msg, witnessStr(v.Witness))
	}
	for i, s := range r.Samples {
		if i >= 3 {
			break
		}
		fmt.Printf("sample path: %s\n", s)
	}
}

func witnessStr(w []uint64) string {
	var sb strings.Builder
	var run []byte
	flush := func() {
		if len(run) > 0 {
			fmt.Fprintf(&sb, "%q ", string(run))
			run = nil
		}
	}
	for _, x := range w {
		if x < 256 {
			run = append(run, byte(x))
			continue
		}
		flush()
		fmt.Fprintf(&sb, "%d ", x)
	}
	flush()
	return sb.String()
}
