package main

import (
	"fmt"
	"go/types"
	"strings"

	"golang.org/x/tools/go/ssa"
)

func (m *Machine) builtin(b *ssa.Builtin, args []Val, cc *ssa.CallCommon) Val {
	switch b.Name() {
	case "len":
		switch x := args[0].(type) {
		case Str:
			return Const(64, uint64(x.n))
		case Slice:
			return Const(64, uint64(x.n))
		case *MapObj:
			if x == nil {
				return Const(64, 0)
			}
			return Const(64, uint64(len(x.entries)))
		case Agg:
			return Const(64, uint64(len(x)))
		case Ptr:
			at := cc.Args[0].Type().Underlying().(*types.Pointer).Elem().Underlying().(*types.Array)
			return Const(64, uint64(at.Len()))
		}
	case "cap":
		switch x := args[0].(type) {
		case Slice:
			return Const(64, uint64(x.c))
		case Ptr:
			at := cc.Args[0].Type().Underlying().(*types.Pointer).Elem().Underlying().(*types.Array)
			return Const(64, uint64(at.Len()))
		}
	case "append":
		s := args[0].(Slice)
		et := cc.Args[0].Type().Underlying().(*types.Slice).Elem()
		es := sizeof(et)
		var src Ptr
		var n int
		switch t := args[1].(type) {
		case Slice:
			src, n = t.p, t.n
		case Str:
			src, n = t.p, t.n
		}
		if n == 0 {
			return s
		}
		nn := s.n + n
		if nn <= s.c {
			m.copyCells(Ptr{s.p.obj, s.p.off + s.n*es}, src, n*es)
			return Slice{s.p, nn, s.c}
		}
		nc := 2 * s.c
		if nc < nn {
			nc = nn
		}
		o := m.heap.New(nc*es, "append")
		if s.n > 0 {
			m.copyCells(Ptr{o, 0}, s.p, s.n*es)
		}
		m.copyCells(Ptr{o, s.n * es}, src, n*es)
		return Slice{Ptr{o, 0}, nn, nc}
	case "copy":
		d := args[0].(Slice)
		es := sizeof(cc.Args[0].Type().Underlying().(*types.Slice).Elem())
		var src Ptr
		var n int
		switch t := args[1].(type) {
		case Slice:
			src, n = t.p, t.n
		case Str:
			src, n = t.p, t.n
		}
		if d.n < n {
			n = d.n
		}
		if n > 0 {
			m.copyCells(d.p, src, n*es)
		}
		return Const(64, uint64(n))
	case "print", "println":
		return nil
	case "String": // unsafe.String
		n := m.concInt(args[1].(*Term), "unsafe.String len")
		if n == 0 {
			return Str{}
		}
		return Str{args[0].(Ptr), n}
	case "StringData":
		return args[0].(Str).p
	case "SliceData":
		return args[0].(Slice).p
	case "Slice": // unsafe.Slice
		n := m.concInt(args[1].(*Term), "unsafe.Slice len")
		return Slice{args[0].(Ptr), n, n}
	case "Add": // unsafe.Add
		p := args[0].(Ptr)
		return Ptr{p.obj, p.off + m.concInt(args[1].(*Term), "unsafe.Add")}
	case "ssa:wrapnilchk":
		if p, ok := args[0].(Ptr); ok && p.obj == nil {
			endPath("PANIC", "value method called via nil pointer")
		}
		return args[0]
	case "delete":
		mo := args[0].(*MapObj)
		if mo != nil {
			mt := cc.Args[0].Type().Underlying().(*types.Map)
			for i, e := range mo.entries {
				if m.branch(m.valEq(mt.Key(), e.k, args[1])) {
					m.touchMap(mo)
					mo.entries = append(mo.entries[:i:i], mo.entries[i+1:]...)
					break
				}
			}
		}
		return nil
	case "clear":
		switch x := args[0].(type) {
		case Slice:
			et := cc.Args[0].Type().Underlying().(*types.Slice).Elem()
			es := sizeof(et)
			for i := 0; i < x.n; i++ {
				m.Store(Ptr{x.p.obj, x.p.off + i*es}, et, m.zeroVal(et))
			}
			return nil
		case *MapObj:
			if x != nil && len(x.entries) > 0 {
				m.touchMap(x)
				x.entries = nil
			}
			return nil
		}
	case "recover":
		// panics end the path (they are reported, never recovered): a deferred recover() only ever sees nil
		return Iface{}
	case "min", "max":
		x, y := args[0].(*Term), args[1].(*Term)
		signed := isSigned(cc.Args[0].Type())
		var lt *Term
		if signed {
			lt = Slt(x, y)
		} else {
			lt = Ult(x, y)
		}
		if b.Name() == "min" {
			return Ite(lt, x, y)
		}
		return Ite(lt, y, x)
	}
	if len(args) == 0 {
		endPath("UNSUPPORTED", "builtin %s()", b.Name())
	}
	endPath("UNSUPPORTED", "builtin %s(%T)", b.Name(), args[0])
	return nil
}

func (m *Machine) copyCells(dst, src Ptr, n int) {
	m.checkAccess(dst, n, "copy-store")
	m.checkAccess(src, n, "copy-load")
	if dst.obj.ro {
		endPath("MEMSAFETY", "write to read-only object")
	}
	m.touch(dst.obj)
	tmp := make([]cell, n)
	copy(tmp, src.obj.cells[src.off:src.off+n])
	copy(dst.obj.cells[dst.off:dst.off+n], tmp)
}

// ---- maps ----

func (m *Machine) mapLookup(mo *MapObj, k Val, mt *types.Map) (Val, bool) {
	if mo != nil {
		for _, e := range mo.entries {
			if m.branch(m.valEq(mt.Key(), e.k, k)) {
				return m.Load(Ptr{e.vobj, 0}, mt.Elem()), true
			}
		}
	}
	return m.zeroVal(mt.Elem()), false
}

// mapSlot returns the element slot for key k, inserting a zeroed one when absent (runtime.mapassign).
func (m *Machine) mapSlot(mo *MapObj, k Val) *Obj {
	if mo == nil {
		endPath("PANIC", "assignment to entry in nil map")
	}
	if !types.Comparable(mo.typ.Key()) {
		endPath("PANIC", "runtime error: hash of unhashable type %s", mo.typ.Key())
	}
	for _, e := range mo.entries {
		if m.branch(m.valEq(mo.typ.Key(), e.k, k)) {
			return e.vobj
		}
	}
	m.touchMap(mo)
	vo := m.heap.New(sizeof(mo.typ.Elem()), "mapslot")
	mo.entries = append(mo.entries, MapEntry{k: k, vobj: vo})
	return vo
}

func (m *Machine) mapUpdate(mo *MapObj, k, v Val) {
	vo := m.mapSlot(mo, k)
	m.Store(Ptr{vo, 0}, mo.typ.Elem(), v)
}

func (m *Machine) entryKeyObj(mo *MapObj, i int) *Obj {
	e := &mo.entries[i]
	if e.kobj == nil {
		ko := m.heap.New(sizeof(mo.typ.Key()), "mapkey")
		m.Store(Ptr{ko, 0}, mo.typ.Key(), e.k)
		ko.ro = true
		m.touchMap(mo)
		mo.entries[i].kobj = ko
		return ko
	}
	return e.kobj
}

// ---- range ----

type strIter struct {
	s Str
	i int
}
type mapIter struct {
	mo *MapObj
	i  int
}

func (m *Machine) rangeStart(v Val, t types.Type) Val {
	switch x := v.(type) {
	case Str:
		return &strIter{x, 0}
	case *MapObj:
		return &mapIter{x, 0}
	}
	endPath("UNSUPPORTED", "range over %T", v)
	return nil
}

func (m *Machine) rangeNext(it Val, x *ssa.Next) Val {
	switch i := it.(type) {
	case *strIter:
		if i.i >= i.s.n {
			return Agg{Bool(false), Const(64, 0), Const(32, 0)}
		}
		f := m.prog.ImportedPackage("unicode/utf8").Func("DecodeRuneInString")
		r := m.call(f, []Val{Str{Ptr{i.s.p.obj, i.s.p.off + i.i}, i.s.n - i.i}}, nil).(Agg)
		sz := m.concInt(r[1].(*Term), "rune size")
		k := i.i
		i.i += sz
		return Agg{Bool(true), Const(64, uint64(k)), r[0]}
	case *mapIter:
		if i.mo == nil || i.i >= len(i.mo.entries) {
			tt := x.Type().(*types.Tuple)
			return Agg{Bool(false), m.zeroVal(tt.At(1).Type()), m.zeroVal(tt.At(2).Type())}
		}
		e := i.mo.entries[i.i]
		i.i++
		return Agg{Bool(true), e.k, m.Load(Ptr{e.vobj, 0}, i.mo.typ.Elem())}
	}
	endPath("UNSUPPORTED", "next on %T", it)
	return nil
}

// ---- externals and stubs ----

func (m *Machine) sliceByte(s Val, i int) *Term {
	switch x := s.(type) {
	case Slice:
		return m.loadBytes(Ptr{x.p.obj, x.p.off + i}, 1)
	case Str:
		return m.loadBytes(Ptr{x.p.obj, x.p.off + i}, 1)
	}
	panic("sliceByte")
}

func lenOf(s Val) int {
	switch x := s.(type) {
	case Slice:
		return x.n
	case Str:
		return x.n
	}
	panic("lenOf")
}

func (m *Machine) indexByte(s Val, c *Term) Val {
	n := lenOf(s)
	for i := 0; i < n; i++ {
		if m.branch(Eq(m.sliceByte(s, i), c)) {
			return Const(64, uint64(i))
		}
	}
	return Const(64, ^uint64(0))
}

func ctz(x *Term) *Term {
	r := Const(8, uint64(x.w))
	for i := int(x.w) - 1; i >= 0; i-- {
		bit := Eq(Extract(x, uint8(i), uint8(i)), Const(1, 1))
		r = Ite(bit, Const(8, uint64(i)), r)
	}
	return Zext(64, r)
}

// bitlen(x) = math/bits.Len as a priority chain over the bits, built in 8 bits and zero-extended
func bitlen(x *Term) *Term {
	r := Const(8, 0)
	for i := 0; i < int(x.w); i++ {
		bit := Eq(Extract(x, uint8(i), uint8(i)), Const(1, 1))
		r = Ite(bit, Const(8, uint64(i+1)), r)
	}
	return Zext(64, r)
}

func (m *Machine) newError(pkg, typ string) Val {
	p := m.prog.ImportedPackage(pkg)
	if p == nil {
		endPath("UNSUPPORTED", "package %s not loaded", pkg)
	}
	t := p.Type(typ).Type()
	o := m.heap.New(sizeof(t), "err:"+typ)
	return Iface{types.NewPointer(t), Ptr{o, 0}}
}

// stub intercepts functions that have bodies but that we model.
func (m *Machine) stub(fn *ssa.Function, args []Val) (r Val, ok bool) {
	name := fn.String()
	if m.ufOn[name] {
		m.pathCalls[name]++
		m.stubsHit["UF:"+name]++
		return m.ufCall(fn, args), true
	}
	defer func() {
		if ok {
			m.stubsHit[name]++
		}
	}()
	switch name {
	case "strconv.AppendFloat", "strconv.FormatFloat":
		// float formatting is outside the solver's reach: an opaque token (never compared successfully with a
		// reference, so properties about float text end inconclusive rather than falsely proved)
		tok := m.strObj("<float>")
		if name == "strconv.FormatFloat" {
			return tok, true
		}
		dst := args[0].(Slice)
		o := m.heap.New(dst.n+tok.n, "AppendFloat")
		if dst.n > 0 {
			m.copyCells(Ptr{o, 0}, dst.p, dst.n)
		}
		m.copyCells(Ptr{o, dst.n}, tok.p, tok.n)
		return Slice{Ptr{o, 0}, dst.n + tok.n, dst.n + tok.n}, true
	case "strconv.ParseFloat":
		// opaque: an arbitrary float of the requested size, no error (range errors are outside the harness bounds)
		f := m.newEnvNondet(64, "float")
		return Agg{f, Iface{}}, true
	case "(github.com/segmentio/asm/cpu/cpuid.CPU).Has":
		// CPU feature bits come from CPUID (assembly, not executed): absent by default, all present after vfCPUAll(),
		// which selects the code paths a machine with AVX/ASIMD takes (segmentio/asm keyset, etc.; their purego bodies
		// define the semantics of the assembly routines)
		if m.cpuAll {
			return Bool(true), true
		}
		return nil, false
	case "errors.Is":
		return m.errorsIs(args[0].(Iface), args[1].(Iface)), true
	case "(*sync.Mutex).Lock", "(*sync.RWMutex).Lock", "(*sync.RWMutex).RLock":
		// sequential model: a lock that is already held can never be acquired (deadlock = PANIC)
		p := args[0].(Ptr)
		if m.locked[p.obj] && !strings.HasSuffix(name, "RLock") {
			endPath("PANIC", "deadlock: %s on a mutex that is already locked", name)
		}
		if !strings.HasSuffix(name, "RLock") {
			m.locked[p.obj] = true
		}
		return nil, true
	case "(*sync.Mutex).Unlock", "(*sync.RWMutex).Unlock":
		p := args[0].(Ptr)
		if !m.locked[p.obj] {
			endPath("PANIC", "sync: unlock of unlocked mutex")
		}
		delete(m.locked, p.obj)
		return nil, true
	case "(*sync.RWMutex).RUnlock":
		return nil, true
	case "(*sync.Mutex).TryLock":
		p := args[0].(Ptr)
		if m.locked[p.obj] {
			return Bool(false), true
		}
		m.locked[p.obj] = true
		return Bool(true), true
	case "(*sync.Once).Do":
		p := args[0].(Ptr)
		if m.onceDone[p.obj] {
			return nil, true
		}
		m.onceDone[p.obj] = true
		if cl := args[1].(*Closure); cl != nil {
			m.call(cl.fn, nil, cl.env)
		}
		return nil, true
	case "bytes.IndexByte", "strings.IndexByte":
		return m.indexByte(args[0], args[1].(*Term)), true
	case "math/bits.TrailingZeros64", "math/bits.TrailingZeros32", "math/bits.TrailingZeros":
		return ctz(args[0].(*Term)), true
	case "math/bits.Len64", "math/bits.Len32", "math/bits.Len":
		return bitlen(args[0].(*Term)), true
	case "fmt.Sprintf", "fmt.Sprint", "strconv.Quote", "strconv.Itoa", "time.quote":
		return m.strObj("<opaque>"), true
	case "fmt.Errorf":
		// message opaque; %w keeps the wrapped error (the first operand that is an error), as *fmt.wrapError does
		format := m.strConcrete(args[0].(Str))
		if strings.Contains(format, "%w") {
			if ops, ok := args[1].(Slice); ok {
				errT := types.Universe.Lookup("error").Type().Underlying().(*types.Interface)
				anyT := types.NewInterfaceType(nil, nil)
				for i := 0; i < ops.n; i++ {
					iv, _ := m.Load(Ptr{ops.p.obj, ops.p.off + 16*i}, anyT).(Iface)
					if iv.t != nil && types.Implements(iv.t, errT) {
						p := m.prog.ImportedPackage("fmt")
						wt := p.Type("wrapError").Type()
						o := m.heap.New(sizeof(wt), "fmt.wrapError")
						st := wt.Underlying().(*types.Struct)
						offs := sizes.Offsetsof(fieldsOf(st))
						m.Store(Ptr{o, int(offs[0])}, st.Field(0).Type(), m.strObj("<opaque>"))
						m.Store(Ptr{o, int(offs[1])}, st.Field(1).Type(), iv)
						return Iface{types.NewPointer(wt), Ptr{o, 0}}, true
					}
				}
			}
		}
		return m.newError("errors", "errorString"), true
	case "github.com/segmentio/encoding/json.syntaxError":
		return m.newError("encoding/json", "SyntaxError"), true
	case "github.com/segmentio/encoding/json.unmarshalTypeError", "github.com/segmentio/encoding/json.unmarshalOverflow":
		return m.newError("encoding/json", "UnmarshalTypeError"), true
	case "time.Parse__disabled":
		// opaque oracle: arbitrary success
		ok := m.newNondet(0, "timeparse")
		tt := fn.Signature.Results().At(0).Type()
		if m.branch(ok) {
			return Agg{m.zeroVal(tt), Iface{}}, true
		}
		return Agg{m.zeroVal(tt), m.newError("errors", "errorString")}, true
	}
	if strings.HasPrefix(name, "internal/race.") || name == "runtime.KeepAlive" {
		return nil, true
	}
	switch name {
	case "internal/godebug.New":
		o := m.heap.New(64, "godebug.Setting")
		return Ptr{o, 0}, true
	case "(*internal/godebug.Setting).Value":
		return Str{}, true
	case "(*internal/godebug.Setting).IncNonDefault":
		return nil, true
	case "sort.Slice", "sort.SliceStable":
		iv := args[0].(Iface)
		sl := iv.v.(Slice)
		less := args[1].(*Closure)
		es := sizeof(iv.t.Underlying().(*types.Slice).Elem())
		// stable insertion sort driven by the real less closure
		for i := 1; i < sl.n; i++ {
			for j := i; j > 0; j-- {
				r := m.call(less.fn, []Val{Const(64, uint64(j)), Const(64, uint64(j - 1))}, less.env).(*Term)
				if !m.branch(r) {
					break
				}
				a := Ptr{sl.p.obj, sl.p.off + j*es}
				b := Ptr{sl.p.obj, sl.p.off + (j-1)*es}
				m.touch(a.obj)
				tmp := make([]cell, es)
				copy(tmp, a.obj.cells[a.off:a.off+es])
				copy(a.obj.cells[a.off:a.off+es], b.obj.cells[b.off:b.off+es])
				copy(b.obj.cells[b.off:b.off+es], tmp)
			}
		}
		return nil, true
	case "(*sync.Pool).Get":
		// poolMode 0: the most recently Put object, else New(), else nil. poolMode 1 (adversarial): nil/New() or ANY
		// object Put earlier on this path - the choice is a decision variable.
		p := args[0].(Ptr)
		puts := m.poolPut[p.obj]
		if len(puts) > 0 {
			pick := len(puts) - 1
			if m.poolMode == 1 {
				pick = -1
				for i := range puts {
					if m.branch(m.newEnvNondet(0, "pool")) {
						pick = i
						break
					}
				}
			}
			if pick >= 0 {
				v := puts[pick]
				m.poolPut[p.obj] = append(append([]Val{}, puts[:pick]...), puts[pick+1:]...)
				return v, true
			}
		}
		pt := fn.Signature.Recv().Type().(*types.Pointer).Elem()
		st := pt.Underlying().(*types.Struct)
		offs := sizes.Offsetsof(fieldsOf(st))
		for i := 0; i < st.NumFields(); i++ {
			if st.Field(i).Name() == "New" {
				cl := m.Load(Ptr{p.obj, p.off + int(offs[i])}, st.Field(i).Type()).(*Closure)
				if cl == nil {
					return Iface{}, true
				}
				return m.call(cl.fn, nil, cl.env), true
			}
		}
		return Iface{}, true
	case "(*sync.Pool).Put":
		p := args[0].(Ptr)
		if iv, ok := args[1].(Iface); ok && iv.t != nil {
			m.poolPut[p.obj] = append(m.poolPut[p.obj], args[1])
		}
		return nil, true
	case "(*sync/atomic.Value).Load":
		p := args[0].(Ptr)
		cur, ok := m.atomics[p.obj]
		if !ok {
			cur = Iface{}
		}
		return m.staleOr(p, cur), true
	case "(*sync/atomic.Value).Store":
		p := args[0].(Ptr)
		m.atomics[p.obj] = args[1]
		m.published(p, args[1])
		return nil, true
	}
	return nil, false
}

// external handles functions without bodies.
func (m *Machine) external(fn *ssa.Function, args []Val) Val {
	name := fn.Name()
	full := fn.String()
	var ret Val
	if strings.HasPrefix(name, "vf") {
		if r, ok := m.intrinsic(name, fn, args); ok {
			return r
		}
	}
	m.stubsHit[full]++
	if target, ok := m.ld.linknames[full]; ok {
		if r, ok := m.linkTarget(target, fn, args); ok {
			return r
		}
	}
	switch {
	case full == "internal/bytealg.IndexByte" || full == "internal/bytealg.IndexByteString":
		return m.indexByte(args[0], args[1].(*Term))
	case full == "time.runtimeNano" || full == "time.now" || full == "runtime.nanotime":
		if full == "time.now" {
			return Agg{Const(64, 0), Const(32, 0), Const(64, 0)}
		}
		return Const(64, 1)
	case strings.HasPrefix(full, "sync/atomic.") && m.atomicOp(full, fn, args, &ret):
		return ret
	case full == "sync/atomic.LoadPointer":
		return m.Load(args[0].(Ptr), types.Typ[types.UnsafePointer])
	case full == "sync/atomic.StorePointer":
		m.Store(args[0].(Ptr), types.Typ[types.UnsafePointer], args[1])
		return nil
	case full == "internal/bytealg.CountString" || full == "internal/bytealg.Count":
		n := lenOf(args[0])
		r := Const(64, 0)
		for i := 0; i < n; i++ {
			r = Bin(OBvAdd, r, Ite(Eq(m.sliceByte(args[0], i), args[1].(*Term)), Const(64, 1), Const(64, 0)))
		}
		return r
	case full == "internal/bytealg.MakeNoZero":
		n := m.concInt(args[0].(*Term), "MakeNoZero")
		o := m.heap.New(n, "MakeNoZero")
		return Slice{Ptr{o, 0}, n, n}
	case full == "internal/bytealg.Equal":
		a, b := args[0].(Slice), args[1].(Slice)
		return m.strEq(Str{a.p, a.n}, Str{b.p, b.n})
	case full == "internal/bytealg.IndexString" || full == "internal/bytealg.Index":
		// naive search, forking per position
		hs, nd := args[0], args[1]
		n, k := lenOf(hs), lenOf(nd)
		for i := 0; i+k <= n; i++ {
			eq := Bool(true)
			for j := 0; j < k; j++ {
				eq = And(eq, Eq(m.sliceByte(hs, i+j), m.sliceByte(nd, j)))
			}
			if m.branch(eq) {
				return Const(64, uint64(i))
			}
		}
		return Const(64, ^uint64(0))
	}
	endPath("UNSUPPORTED", "external function %s", full)
	return nil
}

var _ = fmt.Sprint

// intrinsic implements the bodyless vf* harness functions.
func (m *Machine) intrinsic(name string, fn *ssa.Function, args []Val) (Val, bool) {
	switch name {
	case "vfByte":
		return m.newNondet(8, "b"), true
	case "vfU16":
		return m.newNondet(16, "h"), true
	case "vfU32", "vfF32":
		return m.newNondet(32, "w"), true
	case "vfU64", "vfF64":
		return m.newNondet(64, "q"), true
	case "vfInt":
		return m.newNondet(64, "i"), true
	case "vfBool":
		return m.newNondet(0, "p"), true
	case "vfIntIn":
		lo, hi := args[0].(*Term), args[1].(*Term)
		v := m.newNondet(64, "r")
		m.assume(Sle(lo, v))
		m.assume(Sle(v, hi))
		return Const(64, uint64(m.concInt(v, "vfIntIn"))), true
	case "vfBytes":
		n := m.concInt(args[0].(*Term), "vfBytes len")
		o := m.heap.New(n, "vfBytes")
		for i := 0; i < n; i++ {
			o.cells[i].t = m.newNondet(8, "b")
		}
		return Slice{Ptr{o, 0}, n, n}, true
	case "vfString":
		n := m.concInt(args[0].(*Term), "vfString len")
		if n == 0 {
			return Str{}, true
		}
		o := m.heap.New(n, "vfString")
		for i := 0; i < n; i++ {
			o.cells[i].t = m.newNondet(8, "b")
		}
		o.ro = true
		return Str{Ptr{o, 0}, n}, true
	case "vfAnd":
		return And(args[0].(*Term), args[1].(*Term)), true
	case "vfOr":
		return Or(args[0].(*Term), args[1].(*Term)), true
	case "vfIte":
		return Ite(args[0].(*Term), args[1].(*Term), args[2].(*Term)), true
	case "vfNative":
		return Bool(false), true
	case "vfAssume":
		m.assume(args[0].(*Term))
		return nil, true
	case "vfAssert":
		m.assert(args[0].(*Term), m.strConcrete(args[1].(Str)))
		return nil, true
	case "vfCover":
		m.covers[m.strConcrete(args[0].(Str))] = true
		return nil, true
	case "vfObserve":
		t := args[1].(*Term)
		s := m.strConcrete(args[0].(Str)) + "="
		if t.IsConst() {
			s += fmt.Sprint(t.c)
		} else {
			s += fmt.Sprint(m.evalModel(t)) + "~"
		}
		m.observed = append(m.observed, s)
		return nil, true
	case "vfKnown":
		m.knownCur = m.strConcrete(args[0].(Str))
		return nil, true
	case "vfKnownEnd":
		m.knownCur = ""
		return nil, true
	case "vfModelBug":
		return nil, true
	case "vfCPUAll":
		m.cpuAll = true
		return nil, true
	case "vfPoolMode":
		m.poolMode = m.concInt(args[0].(*Term), "pool mode")
		return nil, true
	case "vfStrBytes":
		s := args[0].(Str)
		return Slice{s.p, s.n, s.n}, true
	case "vfSameObj":
		a, b := args[0].(Slice), args[1].(Slice)
		return Bool(a.p.obj != nil && a.p.obj == b.p.obj), true
	case "vfOffsetIn":
		a, b := args[0].(Slice), args[1].(Slice)
		if b.p.obj == nil || a.p.obj != b.p.obj {
			return Const(64, ^uint64(0)), true
		}
		return Const(64, uint64(a.p.off-b.p.off)), true
	case "vfAllocLimit":
		m.allocLim = m.concInt(args[0].(*Term), "alloc limit")
		return nil, true
	case "vfAllocExplore":
		m.allocExplore = m.concInt(args[0].(*Term), "alloc explore bound")
		return nil, true
	case "vfAllocMax":
		return Const(64, uint64(m.maxAlloc)), true
	case "vfWatch":
		m.watch[m.strConcrete(args[0].(Str))] = true
		return nil, true
	case "vfArgU64":
		name := m.strConcrete(args[0].(Str))
		la, ok := m.lastArgs[name]
		i := m.concInt(args[1].(*Term), "vfArg index")
		if !ok || i >= len(la) {
			endPath("UNSUPPORTED", "vfArgU64: no recorded call of %s", name)
		}
		t, isT := la[i].(*Term)
		if !isT {
			endPath("UNSUPPORTED", "vfArgU64: argument %d of %s is not a scalar", i, name)
		}
		if t.w == 0 {
			return BoolToBV(64, t), true
		}
		return Zext(64, t), true
	case "vfWitness0":
		return Const(64, 0), true
	case "vfConcurrency":
		m.concModel = m.concInt(args[0].(*Term), "concurrency model")
		if m.concModel != 0 {
			m.poolMode = 1
		}
		return nil, true
	case "vfUF":
		m.ufOn[m.strConcrete(args[0].(Str))] = true
		return nil, true
	case "vfUFOff":
		delete(m.ufOn, m.strConcrete(args[0].(Str)))
		return nil, true
	case "vfCalls":
		return Const(64, uint64(m.pathCalls[m.strConcrete(args[0].(Str))])), true
	}
	return nil, false
}

// allocSize handles an allocation whose element count may be symbolic: with an allocation limit set by the harness the
// solver is asked whether the size can exceed it (violation kind ALLOC) before the count is concretised.
func (m *Machine) allocCount(n *Term, es int, what string) int {
	if !n.IsConst() && m.allocLim > 0 && es > 0 {
		lim := uint64(m.allocLim / es)
		over := Or(Slt(n, Const(n.w, 0)), Slt(Const(n.w, lim), n))
		if ok, mod := m.feasible(And(over, Sle(Const(n.w, 0), n))); ok {
			m.model = mod
			m.takeCond(And(over, Sle(Const(n.w, 0), n)))
			endPath("ALLOC", "%s: element count can reach %d (x%d bytes) with allocation limit %d", what, sx(n.w, Eval(n, mod, map[*Term]uint64{})), es, m.allocLim)
		}
	}
	c := m.concInt(n, what)
	if c > 0 && c*es > m.maxAlloc {
		m.maxAlloc = c * es
	}
	if m.allocLim > 0 && c*es > m.allocLim {
		endPath("ALLOC", "%s: allocation of %d bytes exceeds limit %d", what, c*es, m.allocLim)
	}
	return c
}

// ufCall models fn as an uninterpreted function: an arbitrary result of the right type, the same one for the same
// (concrete-identity) arguments on a path.
func (m *Machine) ufCall(fn *ssa.Function, args []Val) Val {
	key := fn.String()
	for _, a := range args {
		key += "|" + m.valKey(a)
	}
	if r, ok := m.ufMemo[key]; ok {
		return r
	}
	res := fn.Signature.Results()
	var r Val
	switch res.Len() {
	case 0:
	case 1:
		r = m.arbitrary(res.At(0).Type(), 0)
	default:
		a := make(Agg, res.Len())
		for i := range a {
			a[i] = m.arbitrary(res.At(i).Type(), 0)
		}
		r = a
	}
	m.ufMemo[key] = r
	return r
}

func (m *Machine) valKey(v Val) string {
	switch x := v.(type) {
	case *Term:
		return fmt.Sprintf("t%d", x.id)
	case Str:
		if x.p.obj == nil {
			return "s0"
		}
		return fmt.Sprintf("s%d+%d:%d", x.p.obj.id, x.p.off, x.n)
	case Slice:
		if x.p.obj == nil {
			return "l0"
		}
		return fmt.Sprintf("l%d+%d:%d", x.p.obj.id, x.p.off, x.n)
	case Ptr:
		if x.obj == nil {
			return "p0"
		}
		return fmt.Sprintf("p%d+%d", x.obj.id, x.off)
	case Agg:
		s := "("
		for _, e := range x {
			s += m.valKey(e) + ","
		}
		return s + ")"
	case Iface:
		if x.t == nil {
			return "i0"
		}
		return "i" + x.t.String() + ":" + m.valKey(x.v)
	}
	return fmt.Sprintf("%T%p", v, v)
}

// arbitrary returns an unconstrained value of type t built from environment nondets (pointers are nil, errors are
// nil or an opaque error, strings are opaque constants).
func (m *Machine) arbitrary(t types.Type, depth int) Val {
	switch u := t.Underlying().(type) {
	case *types.Basic:
		switch {
		case u.Kind() == types.String:
			return m.strObj("<opaque>")
		case u.Kind() == types.Bool:
			return m.newEnvNondet(0, "p")
		case u.Kind() == types.UnsafePointer:
			return Ptr{}
		default:
			w := basicWidth(u)
			if w == 255 {
				endPath("UNSUPPORTED", "arbitrary value of %s", t)
			}
			return m.newEnvNondet(w, "v")
		}
	case *types.Struct:
		a := make(Agg, u.NumFields())
		for i := range a {
			a[i] = m.arbitrary(u.Field(i).Type(), depth+1)
		}
		return a
	case *types.Array:
		a := make(Agg, u.Len())
		for i := range a {
			a[i] = m.arbitrary(u.Elem(), depth+1)
		}
		return a
	case *types.Interface:
		if types.Identical(t, types.Universe.Lookup("error").Type()) {
			if m.branch(m.newEnvNondet(0, "err")) {
				return m.newError("errors", "errorString")
			}
			return Iface{}
		}
		return Iface{}
	}
	return m.zeroVal(t)
}

// flattenWords lays the arguments out as machine words the way the register ABI passes them (struct fields in order).
func flattenWords(args []Val) []Val {
	var out []Val
	for _, a := range args {
		switch x := a.(type) {
		case Agg:
			out = append(out, flattenWords([]Val(x))...)
		case Slice:
			out = append(out, x.p, Const(64, uint64(x.n)), Const(64, uint64(x.c)))
		case Str:
			out = append(out, x.p, Const(64, uint64(x.n)))
		default:
			out = append(out, a)
		}
	}
	return out
}

func (m *Machine) wordPtr(v Val, what string) Ptr {
	switch x := v.(type) {
	case Ptr:
		return x
	case PtrInt:
		return x.p
	case *Term:
		if x.IsConst() && x.c == 0 {
			return Ptr{}
		}
		endPath("MEMSAFETY", "%s: an integer word (%s) is used as a pointer", what, describeTerm(x))
	}
	endPath("MEMSAFETY", "%s: a %T word is used as a pointer", what, v)
	return Ptr{}
}

func describeTerm(t *Term) string {
	if t.IsConst() {
		return fmt.Sprintf("%#x", t.c)
	}
	return "symbolic"
}

func (m *Machine) wordInt(v Val, what string) *Term {
	switch x := v.(type) {
	case *Term:
		return x
	case Ptr:
		if x.obj == nil {
			return Const(64, 0)
		}
		endPath("MEMSAFETY", "%s: a pointer word is used as an integer count", what)
	}
	endPath("MEMSAFETY", "%s: a %T word is used as an integer", what, v)
	return nil
}

func (m *Machine) rtypeArg(v Val, what string) types.Type {
	p := m.wordPtr(v, what)
	t, ok := m.rtypeOf[p.obj]
	if !ok {
		endPath("MEMSAFETY", "%s: type argument is not a type descriptor", what)
	}
	return t
}

// linkTarget implements the runtime functions the repository binds with //go:linkname, by the name and the real
// signature (in machine words) of the TARGET symbol: a declaration whose parameter list does not match the target's
// shows up as words of the wrong kind.
func (m *Machine) linkTarget(target string, fn *ssa.Function, args []Val) (Val, bool) {
	w := flattenWords(args)
	need := func(n int) {
		if len(w) != n {
			// the callee would read its arguments from the wrong registers
			if len(w) < n {
				endPath("MEMSAFETY", "%s takes %d argument words, the linkname declaration %s passes %d", target, n, fn, len(w))
			}
		}
	}
	switch target {
	case "runtime.newarray", "reflect.unsafe_NewArray":
		need(2)
		t := m.rtypeArg(w[0], target)
		n := m.allocCount(m.wordInt(w[1], target), sizeof(t), target)
		if n < 0 {
			endPath("PANIC", "runtime error: makeslice: len out of range")
		}
		o := m.heap.New(n*sizeof(t), "newarray:"+t.String())
		return Ptr{o, 0}, true
	case "runtime.typedslicecopy":
		// func typedslicecopy(typ *_type, dstPtr unsafe.Pointer, dstLen int, srcPtr unsafe.Pointer, srcLen int) int
		need(5)
		t := m.rtypeArg(w[0], target)
		asLen := func(v Val) int {
			if p, ok := v.(Ptr); ok && p.obj != nil {
				return 1 << 40 // an address read as a length
			}
			return m.concInt(m.wordInt(v, target), "typedslicecopy length")
		}
		n := min(asLen(w[2]), asLen(w[4]))
		if n > 0 { // the runtime returns before touching the pointers when nothing is to be copied
			dst := m.wordPtr(w[1], target+" dstPtr")
			src := m.wordPtr(w[3], target+" srcPtr")
			m.copyCells(dst, src, n*sizeof(t))
		}
		return Const(64, uint64(n)), true
	case "reflect.typedslicecopy":
		// func typedslicecopy(t *abi.Type, dst, src unsafeheader.Slice) int
		need(7)
		t := m.rtypeArg(w[0], target)
		dst := m.wordPtr(w[1], target+" dst.Data")
		dl := m.concInt(m.wordInt(w[2], target+" dst.Len"), "typedslicecopy dst.Len")
		src := m.wordPtr(w[4], target+" src.Data")
		sl := m.concInt(m.wordInt(w[5], target+" src.Len"), "typedslicecopy src.Len")
		n := min(dl, sl)
		if n > 0 {
			m.copyCells(dst, src, n*sizeof(t))
		}
		return Const(64, uint64(n)), true
	case "runtime.typedmemmove":
		need(3)
		t := m.rtypeArg(w[0], target)
		dst, src := m.wordPtr(w[1], target), m.wordPtr(w[2], target)
		if sizeof(t) > 0 {
			m.copyCells(dst, src, sizeof(t))
		}
		return nil, true
	case "reflect.makemap":
		need(2)
		t := m.rtypeArg(w[0], target)
		mt, ok := t.Underlying().(*types.Map)
		if !ok {
			endPath("MEMSAFETY", "makemap of non-map type %s", t)
		}
		m.allocCount(m.wordInt(w[1], target), 8, "makemap size hint")
		return Ptr{m.newMap(mt).hdr, 0}, true
	case "runtime.mapassign":
		need(3)
		mo := m.mapArg(w[1], target)
		t := m.rtypeArg(w[0], target)
		if mt, ok := t.Underlying().(*types.Map); !ok || !types.Identical(mt, mo.typ) {
			endPath("MEMSAFETY", "mapassign: map type descriptor %s does not match the map", t)
		}
		k := m.Load(m.wordPtr(w[2], target), mo.typ.Key())
		return Ptr{m.mapSlot(mo, k), 0}, true
	case "runtime.mapiterinit":
		need(3)
		it := m.wordPtr(w[2], target)
		var mo *MapObj
		if p := m.wordPtr(w[1], target); p.obj != nil {
			mo = m.mapArg(w[1], target)
		}
		st := &mapIterState{mo, -1}
		m.mapIters[it.obj] = st
		// hiter: key, value, t, h at offsets 0, 8, 16, 24
		m.storePtrVal(Ptr{it.obj, it.off + 16}, m.wordPtr(w[0], target))
		if mo != nil {
			m.storePtrVal(Ptr{it.obj, it.off + 24}, Ptr{mo.hdr, 0})
		}
		m.mapIterAdvance(it, st)
		return nil, true
	case "runtime.mapiternext":
		need(1)
		it := m.wordPtr(w[0], target)
		st, ok := m.mapIters[it.obj]
		if !ok {
			endPath("MEMSAFETY", "mapiternext on an iterator that was not initialised")
		}
		m.mapIterAdvance(it, st)
		return nil, true
	}
	return nil, false
}

func (m *Machine) mapArg(v Val, what string) *MapObj {
	p := m.wordPtr(v, what)
	if p.obj == nil {
		endPath("PANIC", "%s: nil map", what)
	}
	mo, ok := m.heap.mapOf[p.obj]
	if !ok || p.off != 0 {
		endPath("MEMSAFETY", "%s: pointer is not a map header", what)
	}
	return mo
}

func (m *Machine) mapIterAdvance(it Ptr, st *mapIterState) {
	st.i++
	if st.mo == nil || st.i >= len(st.mo.entries) {
		m.storePtrVal(Ptr{it.obj, it.off}, Ptr{})
		m.storePtrVal(Ptr{it.obj, it.off + 8}, Ptr{})
		return
	}
	m.storePtrVal(Ptr{it.obj, it.off}, Ptr{m.entryKeyObj(st.mo, st.i), 0})
	m.storePtrVal(Ptr{it.obj, it.off + 8}, Ptr{st.mo.entries[st.i].vobj, 0})
}

// errorsIs follows errors.Is: identity comparison along the Unwrap chain (Is methods and multi-error trees are not
// used by the code under test and end the path as unsupported).
func (m *Machine) errorsIs(err, target Iface) Val {
	errT := types.Universe.Lookup("error").Type()
	for i := 0; i < 32; i++ {
		if err.t == nil {
			return Bool(target.t == nil)
		}
		if target.t != nil && types.Identical(err.t, target.t) && types.Comparable(err.t) {
			if eq := m.valEq(err.t, err.v, target.v); m.branch(eq) {
				return Bool(true)
			}
		}
		ms := m.prog.MethodSets.MethodSet(err.t)
		if ms.Lookup(nil, "Is") != nil {
			endPath("UNSUPPORTED", "errors.Is on a type with an Is method (%s)", err.t)
		}
		sel := ms.Lookup(nil, "Unwrap")
		if sel == nil {
			return Bool(false)
		}
		f := m.prog.MethodValue(sel)
		if f == nil {
			return Bool(false)
		}
		if res := f.Signature.Results(); res.Len() != 1 || !types.Identical(res.At(0).Type(), errT) {
			endPath("UNSUPPORTED", "errors.Is: Unwrap of %s does not return error", err.t)
		}
		next, _ := m.call(f, []Val{err.v}, nil).(Iface)
		err = next
	}
	endPath("BUDGET", "errors.Is: unwrap chain longer than 32")
	return nil
}

// atomicOp: sync/atomic primitives as sequentially consistent single steps on typed memory.
func (m *Machine) atomicOp(full string, fn *ssa.Function, args []Val, ret *Val) bool {
	op := strings.TrimPrefix(full, "sync/atomic.")
	p, ok := args[0].(Ptr)
	if !ok {
		return false
	}
	et := fn.Signature.Params().At(0).Type().Underlying().(*types.Pointer).Elem()
	switch {
	case strings.HasPrefix(op, "Load"):
		*ret = m.staleOr(p, m.Load(p, et))
	case strings.HasPrefix(op, "Store"):
		m.Store(p, et, args[1])
		m.published(p, args[1])
		*ret = nil
	case strings.HasPrefix(op, "Swap"):
		old := m.Load(p, et)
		m.Store(p, et, args[1])
		*ret = old
	case strings.HasPrefix(op, "CompareAndSwap"):
		cur := m.Load(p, et)
		if m.branch(m.valEq(et, cur, args[1])) {
			m.Store(p, et, args[2])
			*ret = Bool(true)
		} else {
			*ret = Bool(false)
		}
	case strings.HasPrefix(op, "Add"):
		cur := m.Load(p, et).(*Term)
		nv := Bin(OBvAdd, cur, args[1].(*Term))
		m.Store(p, et, nv)
		*ret = nv
	case strings.HasPrefix(op, "And"), strings.HasPrefix(op, "Or"):
		cur := m.Load(p, et).(*Term)
		o := OBvAnd
		if strings.HasPrefix(op, "Or") {
			o = OBvOr
		}
		m.Store(p, et, Bin(o, cur, args[1].(*Term)))
		*ret = cur
	default:
		return false
	}
	return true
}

// ---- environment model for concurrent use (C09): sequential execution under an adversarial environment ----
//
//  * stale-cache adversary: a copy-on-write root published with an atomic store may, at the next atomic load, hold ANY
//    value published earlier on the path (another goroutine stored a map derived from an older snapshot: a lost update),
//    or the latest one;
//  * publication immutability: everything reachable from a published value is frozen; a later write to it is what a
//    concurrent reader would race with;
//  * adversarial sync.Pool (poolMode 1).

func (m *Machine) published(root Ptr, v Val) {
	if m.concModel == 0 {
		return
	}
	key := pubKey{root.obj, root.off}
	m.pubHist[key] = append(m.pubHist[key], v)
	seen := map[*Obj]bool{}
	m.freeze(v, seen, 0)
}

type pubKey struct {
	o   *Obj
	off int
}

func (m *Machine) staleOr(root Ptr, cur Val) Val {
	if m.concModel == 0 {
		return cur
	}
	h := m.pubHist[pubKey{root.obj, root.off}]
	for i := len(h) - 2; i >= 0; i-- {
		if m.branch(m.newEnvNondet(0, "stale")) {
			m.covers["stale-cache-snapshot-observed"] = true
			return h[i]
		}
	}
	return cur
}

func (m *Machine) freeze(v Val, seen map[*Obj]bool, depth int) {
	if depth > 64 {
		return
	}
	switch x := v.(type) {
	case Ptr:
		m.freezeObj(x.obj, seen, depth)
	case PtrInt:
		m.freezeObj(x.p.obj, seen, depth)
	case Str:
		m.freezeObj(x.p.obj, seen, depth)
	case Slice:
		m.freezeObj(x.p.obj, seen, depth)
	case Iface:
		if x.t != nil {
			m.freeze(x.v, seen, depth+1)
		}
	case Agg:
		for _, e := range x {
			m.freeze(e, seen, depth+1)
		}
	case *Closure:
		if x != nil {
			for _, e := range x.env {
				m.freeze(e, seen, depth+1)
			}
		}
	case *MapObj:
		if x != nil && !seen[x.hdr] {
			seen[x.hdr] = true
			if !x.frozen {
				x.frozen = true
				m.frozenMaps = append(m.frozenMaps, x)
			}
			for _, e := range x.entries {
				m.freeze(e.k, seen, depth+1)
				m.freezeObj(e.vobj, seen, depth+1)
			}
		}
	}
}

func (m *Machine) freezeObj(o *Obj, seen map[*Obj]bool, depth int) {
	if o == nil || seen[o] {
		return
	}
	seen[o] = true
	if mo, ok := m.heap.mapOf[o]; ok {
		m.freeze(mo, seen, depth)
		return
	}
	if strings.HasPrefix(o.name, "global:") || strings.HasPrefix(o.name, "rtype:") {
		return // package-level variables and type descriptors are not part of the published snapshot
	}
	if !o.frozen {
		o.frozen = true
		m.frozenObjs = append(m.frozenObjs, o)
	}
	for i := 0; i+8 <= len(o.cells); i++ {
		if c := o.cells[i]; c.ref != nil && c.k == 0 {
			m.freeze(c.ref.v, seen, depth+1)
		}
	}
}
