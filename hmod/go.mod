module vfhmod

go 1.23

require (
	github.com/segmentio/encoding v0.0.0
	google.golang.org/protobuf v1.25.0
)

require (
	github.com/segmentio/asm v1.1.3 // indirect
	golang.org/x/sys v0.0.0-20211110154304-99a53858aa08 // indirect
)

replace github.com/segmentio/encoding => /repo
