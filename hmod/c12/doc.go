// Package c12 holds the C12 harnesses: they use the public proto API of the repository and, as the reference
// implementation's own wire primitives, google.golang.org/protobuf/encoding/protowire.
package c12
