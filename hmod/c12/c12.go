package c12

import (
	"github.com/segmentio/encoding/proto"
	"google.golang.org/protobuf/encoding/protowire"
)

var vfLen, vfLen2, vfMode, vfWide, vfK int

func wide(i int) bool { return (vfWide>>uint(i))&1 == 1 }
func u64(i int) uint64 {
	if wide(i) {
		return vfU64()
	}
	return uint64(vfByte())
}
func i64(i int) int64 {
	if wide(i) {
		return int64(vfU64())
	}
	return int64(int8(vfByte()))
}

// message M { int64 a = 1; uint32 b = 2; string c = 3; bool d = 4; sint64 e = 7; fixed64 f = 9; bytes g = 10;
//             Inner in = 11; repeated int32 r = 12; Inner p = 13 (held through a pointer); bytes k = 14 (a Go [7]byte); repeated sint64 z = 15; sfixed32 sf = 16; sfixed64 sg = 17; map<string,int32> mp = 18; } message Inner { int32 x = 1; string y = 2; }
type Inner struct {
	X int32
	Y string
}

type M struct {
	A  int64
	B  uint32
	C  string
	D  bool
	E  int64  `protobuf:"zigzag64,7,opt,name=e"`
	F  uint64 `protobuf:"fixed64,9,opt,name=f"`
	G  []byte `protobuf:"bytes,10,opt,name=g"`
	In Inner  `protobuf:"bytes,11,opt,name=in"`
	R  []int32 `protobuf:"varint,12,rep,name=r"`
	P  *Inner  `protobuf:"bytes,13,opt,name=p"`
	K  [7]byte `protobuf:"bytes,14,opt,name=k"`
	Z  []int64 `protobuf:"zigzag64,15,rep,name=z"`
	SF int32   `protobuf:"fixed32,16,opt,name=sf"`
	SG int64   `protobuf:"fixed64,17,opt,name=sg"`
	MP map[string]int32 `protobuf:"bytes,18,rep,name=mp"`
}

func mkM() M {
	m := M{A: i64(0), B: uint32(u64(1)), C: vfString(vfLen), D: vfBool(), E: i64(2), F: vfU64(), G: vfBytes(vfLen)}
	m.In = Inner{X: int32(i64(3)), Y: vfString(vfLen)}
	for i := 0; i < vfLen2; i++ {
		m.R = append(m.R, int32(i64(4)))
	}
	if vfK == 0 {
		if vfBool() {
			m.P = &Inner{X: int32(int8(vfByte())), Y: vfString(vfLen)}
		}
	} else if vfK == 1 { // the byte-array field: one or two non-zero bytes, the last one among them (units with vfK=1 leave P nil)
		m.K[vfIntIn(0, 6)] = vfByte()
		m.K[6] = vfByte()
	} else { // vfK == 2: repeated sint64, sfixed32, sfixed64 and a map (nil, empty, one entry)
		m.Z = []int64{int64(vfU64())}
		m.SF = int32(vfU32())
		m.SG = int64(vfU64())
		switch vfIntIn(0, 2) {
		case 1:
			m.MP = map[string]int32{}
		case 2:
			m.MP = map[string]int32{vfString(1): int32(int8(vfByte()))}
		}
	}
	return m
}

// refEncode: the canonical encoding of M by the reference implementation's wire primitives (proto3: zero values of
// singular fields are omitted; fields in number order)
func refInner(in Inner) []byte {
	var b []byte
	if in.X != 0 {
		b = protowire.AppendTag(b, 1, protowire.VarintType)
		b = protowire.AppendVarint(b, uint64(int64(in.X)))
	}
	if in.Y != "" {
		b = protowire.AppendTag(b, 2, protowire.BytesType)
		b = protowire.AppendString(b, in.Y)
	}
	return b
}

func refEncode(m M) []byte {
	var b []byte
	if m.A != 0 {
		b = protowire.AppendTag(b, 1, protowire.VarintType)
		b = protowire.AppendVarint(b, uint64(m.A))
	}
	if m.B != 0 {
		b = protowire.AppendTag(b, 2, protowire.VarintType)
		b = protowire.AppendVarint(b, uint64(m.B))
	}
	if m.C != "" {
		b = protowire.AppendTag(b, 3, protowire.BytesType)
		b = protowire.AppendString(b, m.C)
	}
	if m.D {
		b = protowire.AppendTag(b, 4, protowire.VarintType)
		b = protowire.AppendVarint(b, 1)
	}
	if m.E != 0 {
		b = protowire.AppendTag(b, 7, protowire.VarintType)
		b = protowire.AppendVarint(b, protowire.EncodeZigZag(m.E))
	}
	if m.F != 0 {
		b = protowire.AppendTag(b, 9, protowire.Fixed64Type)
		b = protowire.AppendFixed64(b, m.F)
	}
	if len(m.G) != 0 {
		b = protowire.AppendTag(b, 10, protowire.BytesType)
		b = protowire.AppendBytes(b, m.G)
	}
	if in := refInner(m.In); len(in) != 0 {
		b = protowire.AppendTag(b, 11, protowire.BytesType)
		b = protowire.AppendBytes(b, in)
	}
	for _, r := range m.R {
		b = protowire.AppendTag(b, 12, protowire.VarintType)
		b = protowire.AppendVarint(b, uint64(int64(r)))
	}
	return b
}

// refDecode decodes a wire message with protowire.Consume* the way any conformant decoder does: last value wins for
// scalars, embedded message occurrences are merged, repeated fields accumulate, unknown fields are skipped.
func refDecodeInner(b []byte, in *Inner) bool {
	for len(b) > 0 {
		num, typ, n := protowire.ConsumeTag(b)
		if n < 0 {
			return false
		}
		b = b[n:]
		switch {
		case num == 1 && typ == protowire.VarintType:
			v, n := protowire.ConsumeVarint(b)
			if n < 0 {
				return false
			}
			in.X = int32(v)
			b = b[n:]
		case num == 2 && typ == protowire.BytesType:
			v, n := protowire.ConsumeBytes(b)
			if n < 0 {
				return false
			}
			in.Y = string(v)
			b = b[n:]
		default:
			n := protowire.ConsumeFieldValue(num, typ, b)
			if n < 0 {
				return false
			}
			b = b[n:]
		}
	}
	return true
}

func eqM(a, b M) {
	vfAssert(a.A == b.A, "M.a")
	vfAssert(a.B == b.B, "M.b")
	vfAssert(a.C == b.C, "M.c")
	vfAssert(a.D == b.D, "M.d")
	vfAssert(a.E == b.E, "M.e")
	vfAssert(a.F == b.F, "M.f")
	vfAssert(string(a.G) == string(b.G), "M.g")
	vfAssert(a.In.X == b.In.X, "M.in.x")
	vfAssert(a.In.Y == b.In.Y, "M.in.y")
	vfAssert(a.K == b.K, "M.k")
	vfAssert(a.SF == b.SF, "M.sf")
	vfAssert(a.SG == b.SG, "M.sg")
	vfAssert(len(a.Z) == len(b.Z), "M.z-len")
	for i := 0; i < len(a.Z) && i < len(b.Z); i++ {
		vfAssert(a.Z[i] == b.Z[i], "M.z")
	}
	vfAssert(len(a.MP) == len(b.MP), "M.mp-len")
	for k, x := range a.MP {
		y, ok := b.MP[k]
		vfAssert(ok && x == y, "M.mp-entry")
	}
	vfAssert((a.P == nil) == (b.P == nil), "M.p-presence")
	if a.P != nil && b.P != nil {
		vfAssert(a.P.X == b.P.X, "M.p.x")
		vfAssert(a.P.Y == b.P.Y, "M.p.y")
	}
	vfAssert(len(a.R) == len(b.R), "M.r-len")
	for i := 0; i < len(a.R) && i < len(b.R); i++ {
		vfAssert(a.R[i] == b.R[i], "M.r")
	}
}

// H12-encode: the bytes proto.Marshal produces decode, with the reference implementation's primitives, to the same
// field values; they are also compared with the canonical reference encoding (informative: protobuf does not fix a
// canonical form, so only decodability is required; identity holds for this message when zero fields are omitted).
func vfH_c12_encode() {
	m := mkM()
	got, err := proto.Marshal(m)
	vfAssert(err == nil, "marshal-ok")
	if err != nil {
		return
	}
	// decode with the reference primitives
	var back M
	b := got
	ok := true
	for len(b) > 0 && ok {
		num, typ, n := protowire.ConsumeTag(b)
		if n < 0 {
			ok = false
			break
		}
		b = b[n:]
		switch {
		case num == 1 && typ == protowire.VarintType:
			v, n := protowire.ConsumeVarint(b)
			ok = n >= 0
			back.A = int64(v)
			b = b[max(n, 0):]
		case num == 2 && typ == protowire.VarintType:
			v, n := protowire.ConsumeVarint(b)
			ok = n >= 0
			back.B = uint32(v)
			b = b[max(n, 0):]
		case num == 3 && typ == protowire.BytesType:
			v, n := protowire.ConsumeBytes(b)
			ok = n >= 0
			back.C = string(v)
			b = b[max(n, 0):]
		case num == 4 && typ == protowire.VarintType:
			v, n := protowire.ConsumeVarint(b)
			ok = n >= 0
			back.D = v != 0
			b = b[max(n, 0):]
		case num == 7 && typ == protowire.VarintType:
			v, n := protowire.ConsumeVarint(b)
			ok = n >= 0
			back.E = protowire.DecodeZigZag(v)
			b = b[max(n, 0):]
		case num == 9 && typ == protowire.Fixed64Type:
			v, n := protowire.ConsumeFixed64(b)
			ok = n >= 0
			back.F = v
			b = b[max(n, 0):]
		case num == 10 && typ == protowire.BytesType:
			v, n := protowire.ConsumeBytes(b)
			ok = n >= 0
			back.G = append([]byte(nil), v...)
			b = b[max(n, 0):]
		case num == 11 && typ == protowire.BytesType:
			v, n := protowire.ConsumeBytes(b)
			ok = n >= 0
			if ok {
				ok = refDecodeInner(v, &back.In)
			}
			b = b[max(n, 0):]
		case num == 12 && typ == protowire.VarintType:
			v, n := protowire.ConsumeVarint(b)
			ok = n >= 0
			back.R = append(back.R, int32(v))
			b = b[max(n, 0):]
		case num == 15 && typ == protowire.VarintType:
			v, n := protowire.ConsumeVarint(b)
			ok = n >= 0
			back.Z = append(back.Z, protowire.DecodeZigZag(v))
			b = b[max(n, 0):]
		case num == 16 && typ == protowire.Fixed32Type:
			v, n := protowire.ConsumeFixed32(b)
			ok = n >= 0
			back.SF = int32(v)
			b = b[max(n, 0):]
		case num == 17 && typ == protowire.Fixed64Type:
			v, n := protowire.ConsumeFixed64(b)
			ok = n >= 0
			back.SG = int64(v)
			b = b[max(n, 0):]
		case num == 18 && typ == protowire.BytesType:
			v, n := protowire.ConsumeBytes(b)
			ok = n >= 0
			if ok {
				// a map entry is a message {1: key, 2: value}; absent parts take their default
				var key string
				var val int32
				e := v
				for len(e) > 0 && ok {
					en, et, k := protowire.ConsumeTag(e)
					if k < 0 {
						ok = false
						break
					}
					e = e[k:]
					switch {
					case en == 1 && et == protowire.BytesType:
						kb, k := protowire.ConsumeBytes(e)
						ok = k >= 0
						key = string(kb)
						e = e[max(k, 0):]
					case en == 2 && et == protowire.VarintType:
						x, k := protowire.ConsumeVarint(e)
						ok = k >= 0
						val = int32(x)
						e = e[max(k, 0):]
					default:
						ok = false
					}
				}
				if ok {
					if back.MP == nil {
						back.MP = map[string]int32{}
					}
					back.MP[key] = val
				}
			}
			b = b[max(n, 0):]
		case num == 14 && typ == protowire.BytesType:
			v, n := protowire.ConsumeBytes(b)
			ok = n >= 0 && len(v) == 7
			if ok {
				copy(back.K[:], v)
			}
			b = b[max(n, 0):]
		case num == 13 && typ == protowire.BytesType:
			v, n := protowire.ConsumeBytes(b)
			ok = n >= 0
			if ok {
				if back.P == nil {
					back.P = new(Inner)
				}
				ok = refDecodeInner(v, back.P)
			}
			b = b[max(n, 0):]
		default:
			ok = false // a field the message does not declare, or a wrong wire type
		}
	}
	vfAssert(ok, "reference-decoder-accepts-the-bytes")
	if ok {
		if len(m.MP) == 0 && len(back.MP) == 1 {
			if v, has := back.MP[""]; has && v == 0 {
				// known finding: a nil or empty map is written as ONE entry with an empty payload (the package's own
				// "empty map marker"), which every conformant decoder reads as the entry {"": 0}
				vfKnown("F-C12-empty-map-marker")
				vfAssert(false, "empty-map-is-written-as-no-entry")
				vfKnownEnd()
				back.MP = nil
			}
		}
		eqM(m, back)
	}
	vfCover("done")
}

// H12-decode: every legal re-encoding of the message built with the reference primitives decodes to the same values:
// vfMode 0 canonical; 1 reverse field order; 2 non-minimal varints (one padding byte); 3 a scalar field twice (last
// wins); 4 the embedded message split in two occurrences (merge); 5 unknown fields interleaved.
func vfH_c12_decode() {
	m := mkM()
	var b []byte
	pad := func(b []byte, v uint64) []byte { // non-minimal varint: one extra continuation byte
		if vfMode == 2 {
			x := protowire.AppendVarint(nil, v)
			if len(x) < 10 { // a varint has at most ten bytes
				x[len(x)-1] |= 0x80
				return append(append(b, x...), 0x00)
			}
		}
		return protowire.AppendVarint(b, v)
	}
	lenPfx := func(b []byte, payload []byte) []byte { // length-delimited payload; mode 2: non-minimal length varint
		b = pad(b, uint64(len(payload)))
		return append(b, payload...)
	}
	fK := func(b []byte) []byte {
		if m.K == ([7]byte{}) {
			return b
		}
		b = protowire.AppendTag(b, 14, protowire.BytesType)
		return lenPfx(b, m.K[:])
	}
	fX := func(b []byte) []byte { // the vfK=2 group
		for _, z := range m.Z {
			b = protowire.AppendTag(b, 15, protowire.VarintType)
			b = pad(b, protowire.EncodeZigZag(z))
		}
		if m.SF != 0 {
			b = protowire.AppendTag(b, 16, protowire.Fixed32Type)
			b = protowire.AppendFixed32(b, uint32(m.SF))
		}
		if m.SG != 0 {
			b = protowire.AppendTag(b, 17, protowire.Fixed64Type)
			b = protowire.AppendFixed64(b, uint64(m.SG))
		}
		for k, x := range m.MP {
			var e []byte
			e = protowire.AppendTag(e, 1, protowire.BytesType)
			e = protowire.AppendString(e, k)
			e = protowire.AppendTag(e, 2, protowire.VarintType)
			e = pad(e, uint64(int64(x)))
			b = protowire.AppendTag(b, 18, protowire.BytesType)
			b = lenPfx(b, e)
		}
		return b
	}
	fA := func(b []byte) []byte {
		b = protowire.AppendTag(b, 1, protowire.VarintType)
		return pad(b, uint64(m.A))
	}
	fB := func(b []byte) []byte {
		b = protowire.AppendTag(b, 2, protowire.VarintType)
		return pad(b, uint64(m.B))
	}
	fC := func(b []byte) []byte {
		b = protowire.AppendTag(b, 3, protowire.BytesType)
		return lenPfx(b, []byte(m.C))
	}
	fD := func(b []byte) []byte {
		b = protowire.AppendTag(b, 4, protowire.VarintType)
		var v uint64
		if m.D {
			v = 1
		}
		return pad(b, v)
	}
	fE := func(b []byte) []byte {
		b = protowire.AppendTag(b, 7, protowire.VarintType)
		return pad(b, protowire.EncodeZigZag(m.E))
	}
	fF := func(b []byte) []byte {
		b = protowire.AppendTag(b, 9, protowire.Fixed64Type)
		return protowire.AppendFixed64(b, m.F)
	}
	fG := func(b []byte) []byte {
		b = protowire.AppendTag(b, 10, protowire.BytesType)
		return lenPfx(b, m.G)
	}
	fIn := func(b []byte) []byte {
		if vfMode == 4 {
			// two occurrences: {x} then {y}
			var p1, p2 []byte
			p1 = protowire.AppendTag(p1, 1, protowire.VarintType)
			p1 = protowire.AppendVarint(p1, uint64(int64(m.In.X)))
			p2 = protowire.AppendTag(p2, 2, protowire.BytesType)
			p2 = protowire.AppendString(p2, m.In.Y)
			b = protowire.AppendTag(b, 11, protowire.BytesType)
			b = protowire.AppendBytes(b, p1)
			b = protowire.AppendTag(b, 11, protowire.BytesType)
			return protowire.AppendBytes(b, p2)
		}
		var p []byte
		p = protowire.AppendTag(p, 1, protowire.VarintType)
		p = pad(p, uint64(int64(m.In.X)))
		p = protowire.AppendTag(p, 2, protowire.BytesType)
		p = protowire.AppendString(p, m.In.Y)
		b = protowire.AppendTag(b, 11, protowire.BytesType)
		return lenPfx(b, p)
	}
	fP := func(b []byte) []byte {
		if m.P == nil {
			return b
		}
		var p1, p2 []byte
		p1 = protowire.AppendTag(p1, 1, protowire.VarintType)
		p1 = pad(p1, uint64(int64(m.P.X)))
		p2 = protowire.AppendTag(p2, 2, protowire.BytesType)
		p2 = protowire.AppendString(p2, m.P.Y)
		if vfMode == 4 { // two occurrences: {x} then {y}; a conformant decoder merges them
			b = protowire.AppendTag(b, 13, protowire.BytesType)
			b = protowire.AppendBytes(b, p1)
			b = protowire.AppendTag(b, 13, protowire.BytesType)
			return protowire.AppendBytes(b, p2)
		}
		b = protowire.AppendTag(b, 13, protowire.BytesType)
		return protowire.AppendBytes(b, append(p1, p2...))
	}
	fR := func(b []byte) []byte {
		for _, r := range m.R {
			b = protowire.AppendTag(b, 12, protowire.VarintType)
			b = pad(b, uint64(int64(r)))
		}
		return b
	}
	unk := func(b []byte) []byte {
		if vfMode == 5 {
			b = protowire.AppendTag(b, 6, protowire.Fixed32Type)
			b = protowire.AppendFixed32(b, vfU32())
			b = protowire.AppendTag(b, 500, protowire.BytesType)
			b = protowire.AppendBytes(b, vfBytes(1))
			b = protowire.AppendTag(b, 5, protowire.VarintType)
			b = protowire.AppendVarint(b, uint64(vfByte()))
		}
		return b
	}
	switch vfMode {
	case 1:
		// reverse order
		b = fA(fB(fC(fD(fE(fF(fG(fIn(fR(fP(fK(fX(nil))))))))))))
	case 3:
		// each scalar first with another value, then with the right one
		b = protowire.AppendTag(b, 1, protowire.VarintType)
		b = protowire.AppendVarint(b, uint64(vfByte()))
		b = protowire.AppendTag(b, 3, protowire.BytesType)
		b = protowire.AppendString(b, "zz")
		b = protowire.AppendTag(b, 4, protowire.VarintType)
		b = protowire.AppendVarint(b, 1)
		b = fX(fK(fP(fR(fIn(fG(fF(fE(fD(fC(fB(fA(b))))))))))))
	default:
		b = fA(b)
		b = unk(b)
		b = fB(b)
		b = fC(b)
		b = fD(b)
		b = unk(b)
		b = fE(b)
		b = fF(b)
		b = fG(b)
		b = fIn(b)
		b = fR(b)
		b = fP(b)
		b = fK(b)
		b = fX(b)
		b = unk(b)
	}
	var got M
	err := proto.Unmarshal(b, &got)
	vfAssert(err == nil, "unmarshal-accepts-conformant-encoding")
	if err == nil {
		eqM(m, got)
	}
	vfCover("done")
}

// message Big { int32 a = 70000; string b = 536870911; }  (field numbers beyond 16 bits; 2^29-1 is the largest legal one)
type Big struct {
	A int32  `protobuf:"varint,70000,opt,name=a"`
	B string `protobuf:"bytes,536870911,opt,name=b"`
}

// H12-bignum: field numbers above 65535 are written in full (the tag is the varint of number<<3|type).
func vfH_c12_bignum() {
	v := Big{A: int32(int8(vfByte())), B: vfString(1)}
	vfAssume(v.A != 0)
	b, err := proto.Marshal(v)
	vfAssert(err == nil, "marshal-ok")
	if err != nil {
		return
	}
	gotA, gotB := false, false
	ok := true
	for len(b) > 0 && ok {
		num, typ, n := protowire.ConsumeTag(b)
		if n < 0 {
			ok = false
			break
		}
		b = b[n:]
		switch {
		case num == 70000 && typ == protowire.VarintType:
			x, n := protowire.ConsumeVarint(b)
			ok = n >= 0 && int32(x) == v.A
			gotA = true
			b = b[max(n, 0):]
		case num == 536870911 && typ == protowire.BytesType:
			x, n := protowire.ConsumeBytes(b)
			ok = n >= 0 && string(x) == v.B
			gotB = true
			b = b[max(n, 0):]
		default:
			ok = false
		}
	}
	vfKnown("F-C12-field-number-16-bits")
	vfAssert(ok && gotA && gotB, "fields-carry-their-declared-numbers")
	vfKnownEnd()
	vfCover("done")
}
