#!/usr/bin/env python3
"""Generates the json encode-side specs (C01, C15, C14, C06) from the shape table of harness/json/shapes.go."""
import json, os, sys
sys.path.insert(0, os.path.dirname(os.path.abspath(__file__)))
from cap_thorough import cap_spec
root = os.path.dirname(os.path.dirname(os.path.abspath(__file__)))
ov = ["harness/json"]
# index, name, uses vfLen (string length), uses vfLen2
shapes = [(0, "basic", True, False), (1, "ptrs", False, False), (2, "strtag", True, False), (3, "slices", True, False), (4, "maps", True, False),
          (5, "nested", True, False), (6, "iface", True, False), (7, "numraw", True, True), (8, "marsh", True, False),
          (9, "fastmaps", True, False), (10, "bytes", True, False), (11, "addrV", False, False), (12, "addrP", False, False)]
def unit(name, desc, harness, grid, covers, **kw):
    u = {"name": name, "desc": desc, "pkg": "./json", "overlay": ov, "harness": harness, "grid": grid, "covers": covers, "timeout_ms": 30000}
    u.update(kw); return u
def lens(ulen, q, t): return {"quick": q if ulen else [0], "thorough": t if ulen else [0]}
def fix_bytes(spec):
    for u in spec["units"]:
        if u["name"].endswith("-bytes") and "vfShape" in u["grid"]:
            u["grid"]["vfLen"] = {"quick": [0, 1, 2, 3, 4, 7], "thorough": "0..10"}
assume = [
  "type shapes are the catalogue structs of harness/json/shapes.go (tags, omitempty, ,string, pointers, slices/arrays/[]byte, maps with string and integer keys, embedded struct and embedded pointer, interfaces holding scalars/pointers/slices/maps, Number, RawMessage, Marshaler and TextMarshaler on value receivers); values are symbolic inside a shape",
  "the expected encoding/json output of each shape is a hand-written model (want functions) over reference scalars (refInt, refQuote, refBase64, refCompact, refValid); every counterexample is replayed natively against the REAL encoding/json and a disagreement between model and encoding/json is reported as a machinery error, never as a violation",
  "integers in shapes are byte-range (-128..127 / 0..255); full-width integer formatting is decided separately by induction (H01-int); floats, time.Time and big.Int are outside (strconv/time formatting is not encoded)",
  "sync.Pool: most-recently-Put object; sort.Slice: engine-side stable insertion sort driving the real less function",
]
c01 = {"property": "C01", "title": "json.Marshal is byte-for-byte encoding/json.Marshal", "level": "model_checking", "assumptions": assume,
       "outside_claim": ["float formatting, time.Time, time.Duration, big.Int", "types outside the catalogue", "MarshalIndent/SetIndent (delegated to encoding/json.Indent)", "strings longer than the bounds"], "units": []}
for i, n, ulen, ulen2 in shapes:
    g = {"vfShape": {"all": [i]}, "vfLen": lens(ulen, [0, 1], [0, 1, 2]), "vfLen2": lens(ulen2, [0, 2], [0, 1, 2, 3]), "vfMode": {"quick": [0, 2], "thorough": [0, 1, 2]}, "vfFlags": {"all": [0, 1]}}
    c01["units"].append(unit("H01-" + n, "Marshal/Append/Encoder.Encode(EscapeHTML on|off) == encoding/json, error parity (shape %s)" % n, "vfH_c01_shape", g, ["done"], split={"all": 6}))
c01["units"].append(unit("H01-writeerr", "Encoder.Encode on a failing writer reports the write error at once and on later calls (shape basic)", "vfH_c01_shape", {"vfShape": {"all": [0]}, "vfLen": {"all": [1]}, "vfLen2": {"all": [0]}, "vfMode": {"all": [3]}, "vfFlags": {"all": [0, 1]}}, ["done"]))
c01["units"].append(unit("H01-str", "AppendEscape/Escape on every string of the length, EscapeHTML on/off", "vfH_c01_str", {"vfLen": {"quick": "0..3", "thorough": "0..4"}, "vfFlags": {"all": [0, 1]}}, ["done"], split={"all": 4}))
c01["units"].append(unit("H01-strlong", "strings of 8..26 letters with one (quick) or two arbitrary bytes at arbitrary positions: every residue of the 8-byte escapeIndex scan", "vfH_c01_strlong",
                         {"vfLen": {"quick": [8, 9, 16, 17], "thorough": [8, 9, 10, 15, 16, 17, 18, 24, 25]}, "vfFlags": {"all": [0, 1]}, "vfMode": {"quick": [1], "thorough": [1, 2]}}, ["done"], split={"all": 3}, concret=["github.com/segmentio/encoding/json.escapeIndex"]))
c01["units"].append(unit("H01-int", "appendInt/appendUint on every 64-bit integer by induction on digit pairs (base n<100, step n>=100, sign)", "vfH_c01_int", {"vfMode": {"all": [0, 1, 2]}}, ["done"], timeout_ms=60000))
c01["units"].append(unit("H01-intkeys", "maps with integer keys and two entries with arbitrary distinct keys (int8, int, uint8): members sorted by the decimal text of the keys, Marshal and Encoder.Encode", "vfH_c01_intkeys", {"vfMode": {"quick": [0, 2], "thorough": [0, 1, 2]}, "vfFlags": {"quick": [0], "thorough": [0, 1]}}, ["done"], split={"all": 4}, maxconc=128))
c15 = {"property": "C15", "title": "json.Append is oblivious to the destination's length and capacity", "level": "model_checking", "assumptions": assume + ["prefix lengths {0,1,3} x spare capacities {0, n-1, n, n+1, 64} are swept on every path (n = encoded size, concrete per path); append growth is Go's (exact fit or doubling as modelled by the engine)"],
       "outside_claim": ["types outside the catalogue", "other prefix lengths / capacities"], "units": []}
for i, n, ulen, ulen2 in shapes:
    g = {"vfShape": {"all": [i]}, "vfLen": lens(ulen, [1], [0, 1, 2]), "vfLen2": lens(ulen2, [2], [0, 2, 3]), "vfFlags": {"quick": [3, 0], "thorough": [0, 1, 2, 3, 4, 7]}}
    c15["units"].append(unit("H15-" + n, "Append destination sweep (shape %s)" % n, "vfH_c15_shape", g, ["done"], split={"all": 6}))
c15["units"].append(unit("H15-top", "destination sweep on top-level values (specialised maps, slices, interfaces, Marshalers), including values whose encoding fails half-way, sorted and unsorted", "vfH_c15_top", {"vfMode": {"all": "0..9"}, "vfFlags": {"quick": [0, 2], "thorough": "0..7"}}, ["done"]))
c15["units"].append(unit("H15-escape", "AppendEscape destination sweep on every string of the length", "vfH_c15_escape", {"vfLen": {"quick": "0..2", "thorough": "0..3"}, "vfFlags": {"all": [0, 1]}}, ["done"]))
c14 = {"property": "C14", "title": "json flags change representation or copying, never meaning", "level": "model_checking", "assumptions": assume + ["encode side: all 8 subsets of EscapeHTML|SortMapKeys|TrustRawMessage on every path; TrustRawMessage only for values whose raw messages are valid", "unsorted map output is compared with both member orders (catalogue maps have at most two entries)"],
       "outside_claim": ["types outside the catalogue", "decode-side flags are covered by the units whose names start with H14-dec, if present"], "units": []}
for i, n, ulen, ulen2 in shapes:
    g = {"vfShape": {"all": [i]}, "vfLen": lens(ulen, [1], [0, 1, 2]), "vfLen2": lens(ulen2, [2], [0, 2, 3])}
    c14["units"].append(unit("H14-enc-" + n, "all AppendFlags subsets (shape %s)" % n, "vfH_c14_enc", g, ["done"], split={"all": 6}))
rt_shapes = [x for x in shapes if x[0] in (0, 1, 2, 3, 4, 5, 6, 7, 9, 10)]
for i, n, ulen, ulen2 in rt_shapes:
    g = {"vfShape": {"all": [i]}, "vfRT": {"all": [1]}, "vfLen": lens(ulen, [1], [0, 1, 2]), "vfLen2": lens(ulen2, [2], [0, 2, 3]), "vfFlags": {"quick": [15, 5], "thorough": [0, 15, 5, 10]}}
    c14["units"].append(unit("H14-dec-" + n, "Parse(default output, subset of DontCopyString|DontCopyNumber|DontCopyRawMessage|DontMatchCaseInsensitiveStructFields) restores the value (shape %s)" % n, "vfH_c14_dec", g, ["done"], split={"all": 6}))
c14["units"].append(unit("H14-num-free", "all 16 subsets of UseNumber|UseBigInt|UseInt64|UseUint64 on every valid number literal of the length parsed into an interface: dynamic type by documented precedence, value preserved", "vfH_c14_num",
                         {"vfMode": {"all": [0]}, "vfLen": {"quick": "1..3", "thorough": "1..4"}, "vfFlags": {"all": "0..15"}}, ["uint64", "int64", "big", "Number", "float64"]))
c14["units"].append(unit("H14-num-limits", "the same on 18..21-digit literals around the int64/uint64 limits (last two digits free, one digit more or fewer)", "vfH_c14_num",
                         {"vfMode": {"all": "1..6"}, "vfFlags": {"all": "0..15"}}, ["uint64", "int64", "big", "Number", "float64"]))
c14["outside_claim"] = ["types outside the catalogue", "float64 VALUES chosen for numbers in interfaces (strconv.ParseFloat is an opaque stub; the dynamic type is checked)", "number literals longer than 4 bytes other than the limit families"]
c14["assumptions"] += ["decode side: the input of Parse is a private copy of the default output; equality of the restored value is observed through its canonical re-encoding", "math/big is executed from its pure-Go sources (build tag math_big_pure_go); *big.Int results are compared with a 128-bit reference evaluation of the digits"]
c06 = {"property": "C06", "title": "json never panics, faults, overflows the stack or hangs", "level": "model_checking", "assumptions": assume + ["engine monitors on every path: Go run-time panics, out-of-object access through unsafe, wild pointers, step and call-depth budgets (a budget end is replayed natively in a sub-process and is a violation when the real code crashes or hangs)"],
       "outside_claim": ["recursion depth proportional to input nesting is unbounded in the code; only depths within the input bounds are explored", "types outside the catalogue", "decode side: see units H06-dec-* if present"], "units": []}
for i, n, ulen, ulen2 in shapes:
    g = {"vfShape": {"all": [i]}, "vfLen": lens(ulen, [1], [0, 1, 2]), "vfLen2": lens(ulen2, [2], [0, 2, 3])}
    c06["units"].append(unit("H06-enc-" + n, "Marshal by value and by pointer: no panic, same bytes (shape %s)" % n, "vfH_c06_enc", g, ["done"], split={"all": 6}))
c06["units"].append(unit("H06-direct", "pointer-shaped values passed by value ([1]*T, struct{*T}, map, nested)", "vfH_c06_direct", {"vfMode": {"all": "0..6"}}, ["done"]))
c06["units"].append(unit("H06-cycle", "self-referential values: pointer cycles through struct fields, map values and slice elements must be errors; slice/map/interface self-containment (known finding)", "vfH_c06_cycle", {"vfMode": {"all": "0..5"}}, [], hang_is_violation=True, maxsteps=50000000, maxdepth=40000))
c06["units"].append(unit("H06-dec", "every byte string of the length into 18 targets (five specialised maps, named map type, structs with embedded pointer / ,string / slices / pointers, slices of structs, interfaces, arrays of slices, pointer to struct, Number+RawMessage, time.Duration and a struct of durations)", "vfH_c06_dec",
                         {"vfMode": {"all": "0..17"}, "vfLen": {"quick": "0..3", "thorough": "0..4"}}, ["rejected"], warm="vfWarm_c06", split={"all": 4}))
c06["units"].append(unit("H06-trunc", "a valid document per target cut at every offset and with one arbitrary byte at an arbitrary position (Unmarshal; thorough also Parse with ZeroCopy)", "vfH_c06_trunc",
                         {"vfMode": {"all": "0..17"}, "vfFlags": {"quick": [0], "thorough": [0, 1]}}, ["intact", "truncated", "corrupt"], warm="vfWarm_c06", split={"all": 8}))
c06["outside_claim"] = ["recursion depth proportional to input nesting is unbounded in the code; only depths within the input bounds are explored", "types outside the catalogue and the 16 decode targets", "documents other than free bytes up to the bound and single-byte corruptions / truncations of the 16 template documents", "float exponents in decode inputs (strconv.ParseFloat is an opaque stub)"]
seq = unit("H06-seq", "a call that fails half-way (encode: invalid RawMessage / failing Marshaler inside sorted or unsorted specialised maps; decode: type error or syntax error inside maps, slices, embedded pointers) leaves nothing behind: the following encodes/decodes of the specialised map types and structs give the fresh-process result", "vfH_c06_seq",
           {"vfMode": {"all": "0..6"}, "vfFlags": {"quick": [2, 0], "thorough": [0, 1, 2, 3]}}, ["done"])
c06["units"].append(seq)
c14["units"].append(dict(seq, name="H14-seq"))
def quick_only(spec, keep=()):
    # thorough tier = quick tier except for the named units (the thorough bounds of the others did not finish in 20 min)
    for u in spec["units"]:
        if u["name"] in keep:
            continue
        for k, v in u.get("grid", {}).items():
            if "all" not in v:
                u["grid"][k] = {"quick": v["quick"], "thorough": v["quick"]}
CAPPED = {"C03", "C07", "C01", "C14", "C06"}  # thorough tier bounded to one deepened variable per unit (see cap_thorough.py)
for fn, spec in (("C01", c01), ("C15", c15), ("C14", c14), ("C06", c06)):
    if fn in CAPPED:
        cap_spec(spec)
    if fn == "C14":
        quick_only(spec, keep=("H14-num-free", "H14-enc-basic", "H14-enc-maps", "H14-enc-fastmaps", "H14-dec-basic", "H14-dec-fastmaps", "H14-seq"))
    fix_bytes(spec)
    json.dump(spec, open(os.path.join(root, "spec", fn + ".json"), "w"), indent=1)
print("ok")
