#!/usr/bin/env python3
"""Regenerates /verif/MANIFEST.json from spec/*.json and tools/manifest_texts.json."""
import json, os, glob
root = os.path.dirname(os.path.dirname(os.path.abspath(__file__)))
texts = json.load(open(os.path.join(root, 'tools', 'manifest_texts.json')))
props = [json.loads(l) for l in open(os.path.join(root, 'properties.jsonl'))]
checks, na = [], []
for p in props:
    pid = p['id']
    sp = os.path.join(root, 'spec', pid + '.json')
    t = texts.get(pid, {})
    if os.path.exists(sp) and t.get('claimed', True):
        spec = json.load(open(sp))
        checks.append({
            "property_id": pid,
            "quick_cmd": "./vf check %s --tier quick" % pid,
            "thorough_cmd": "./vf check %s --tier thorough" % pid,
            "evidence_file": "/verif/evidence/%s.json" % pid,
            "replay_cmd_template": "./vf replay {path}",
            "engine": "vf",
            "level_claimed": {"category": spec.get("level", "model_checking"), "text": t.get("text", ""), "design_ref": t.get("design_ref", "DESIGN.md section 4 (%s)" % pid)},
            "level_note": t.get("note", ""),
            "technique": t.get("technique", "bounded symbolic execution of the real Go SSA, assertions and branch feasibility decided by z3 (SMT, QF_BV); counterexamples replayed natively"),
        })
    else:
        na.append({"property_id": pid, "reason": t.get("na_reason", "no solver-based check has been built for this property yet")})
baseline = json.load(open('/root/.vp/BASELINE.json'))['cmd'] if os.path.exists('/root/.vp/BASELINE.json') else ""
m = {
    "version": 1,
    "setup_cmd": "cd /verif/engine && GOFLAGS=-mod=vendor GOPROXY=off GOSUMDB=off GOTOOLCHAIN=local go build -o /verif/bin/vf .",
    "hooks": {
        "guard": "verif",
        "enable": "no source hooks: harnesses are injected at load time with a go/packages overlay (build tags purego,verif) and at replay time with go test -overlay; /repo is never written by a check",
        "baseline_off_cmd": baseline,
        "source_commits": [],
        "add_only": True,
    },
    "engines": [{"name": "vf", "path": "/verif/engine", "serves_properties": [c["property_id"] for c in checks],
                 "kind_free_text": "path-based symbolic executor for go/ssa (byte-addressed heap, unsafe casts, closures, interfaces, reflect emulation) with z3 5.1.0 as incremental SMT back end; written for this task"}],
    "checks": checks,
    "not_applicable": na,
    "notes": "exit codes of ./vf check: 0 = every obligation discharged within the stated bounds (KNOWN-FINDING lines allowed), 1 = VIOLATION confirmed by native replay, 2 = machinery error (unconfirmed counterexample, reference-model bug, engine error), 3 = inconclusive (solver unknown, budget, unsupported construct). See DESIGN.md.",
}
json.dump(m, open(os.path.join(root, 'MANIFEST.json'), 'w'), indent=1)
print("checks:", [c["property_id"] for c in checks], "na:", [x["property_id"] for x in na])
