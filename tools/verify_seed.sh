#!/bin/bash
# usage: tools/verify_seed.sh <property-id> <k> [outdir] [destk]    (reads <outdir>/{patch<k>.diff,demo<k>_test.go,meta<k>.json}; default outdir /tmp/out-<id>; stored as seeded/<id>-<destk>)
# Confirms in a scratch worktree of /repo HEAD: the suite passes with the change, the demo fails with it and passes without it;
# then stores the seed under /verif/seeded/<id>-<k>/.
set -u
id="$1"; k="$2"; out="${3:-/tmp/out-$id}"; destk="${4:-$k}"
export GOFLAGS=-mod=mod GOPROXY=off GOSUMDB=off GOTOOLCHAIN=local
mkdir -p /root/scratch; wt="/root/scratch/vs-$id-$k"
git -C /repo worktree remove --force "$wt" 2>/dev/null
git -C /repo worktree add -q --detach "$wt" HEAD || exit 9
cleanup() { git -C /repo worktree remove --force "$wt" 2>/dev/null; }
trap cleanup EXIT
dir=$(python3 -c "import json;print(json.load(open('$out/meta$k.json'))['demo_dir'])")
run=$(python3 -c "import json;print(json.load(open('$out/meta$k.json'))['demo_run'])")
cd "$wt"
cp "$out/demo${k}_test.go" "$wt/$dir/zz_seed_demo${k}_test.go"
# demo without the change
( cd "$wt" && eval "$run" ) > "$wt/.demo_clean.log" 2>&1; clean=$?
git apply "$out/patch$k.diff" || { echo "$id-$k: PATCH DOES NOT APPLY to current /repo HEAD"; exit 8; }
( cd "$wt" && eval "$run" ) > "$wt/.demo_mut.log" 2>&1; mut=$?
rm "$wt/$dir/zz_seed_demo${k}_test.go"
( cd "$wt" && go test -vet=off -count=1 ./... ) > "$wt/.suite.log" 2>&1; suite=$?
echo "$id-$k: demo_clean_exit=$clean demo_mutant_exit=$mut suite_with_mutant_exit=$suite"
if [ $clean -eq 0 ] && [ $mut -ne 0 ] && [ $suite -eq 0 ]; then
  d="/verif/seeded/$id-$destk"; mkdir -p "$d"
  cp "$out/patch$k.diff" "$d/patch.diff"; cp "$out/demo${k}_test.go" "$d/demo_test.go"
  python3 - "$out/meta$k.json" "$d/meta.json" <<PY
import json,sys
m=json.load(open(sys.argv[1]))
m['verified']={'suite_passes_with_change':True,'demo_fails_with_change':True,'demo_passes_without_change':True,
  'how':'tools/verify_seed.sh: scratch worktree of /repo HEAD; go test -vet=off -count=1 ./... with the patch; demo test copied to demo_dir and run with demo_run with and without the patch'}
json.dump(m,open(sys.argv[2],'w'),indent=1)
PY
  echo "$id-$k: KEPT -> $d"
else
  echo "$id-$k: REJECTED"; tail -5 "$wt/.demo_clean.log" "$wt/.demo_mut.log" "$wt/.suite.log" | head -40
fi
