#!/usr/bin/env python3
"""Bounds the thorough tier of a spec: per unit, ONE grid variable keeps its deeper thorough values (the first of
vfLen, vfLen2, vfWide, vfMode, vfFlags, ... whose thorough list differs from the quick list); every other variable uses
its quick values in the thorough tier too. This keeps the cost of a thorough run within a small multiple of the quick
run, so that every registered thorough bound is one that was actually run clean.
usage: tools/cap_thorough.py C03 C04 ...   (edits spec/<id>.json in place)"""
import json, os, sys
root = os.path.dirname(os.path.dirname(os.path.abspath(__file__)))
PRIO = ["vfLen", "vfLen2", "vfWide", "vfMode", "vfFlags", "vfShape", "vfProto", "vfDeep", "vfK"]
def cap_spec(spec, keep=None):
    for u in spec["units"]:
        g = u.get("grid", {})
        diff = [k for k, v in g.items() if "all" not in v and v.get("quick") != v.get("thorough")]
        diff.sort(key=lambda k: PRIO.index(k) if k in PRIO else 99)
        pref = (keep or {}).get(u["name"])
        if pref in diff:
            diff.remove(pref); diff.insert(0, pref)
        for k in diff[1:]:
            g[k] = {"quick": g[k]["quick"], "thorough": g[k]["quick"]}
    return spec
if __name__ == "__main__":
    for cid in sys.argv[1:]:
        p = os.path.join(root, "spec", cid + ".json")
        s = cap_spec(json.load(open(p)))
        json.dump(s, open(p, "w"), indent=1)
        print("capped", cid)
