#!/bin/bash
# usage: tools/run_all_quick.sh [tier]   -- runs every registered check once (rewrites evidence/*.json), prints exit code and wall time
tier="${1:-quick}"
cd /verif
for i in $(seq -w 1 20); do
  id=C$i; t0=$(date +%s)
  ./vf check $id --tier $tier > /tmp/quick-$id.log 2>&1; rc=$?
  t1=$(date +%s)
  echo "$id $tier exit=$rc wall=$((t1-t0))s violations=$(grep -c '^VIOLATION' /tmp/quick-$id.log) known=$(grep -c '^KNOWN-FINDING' /tmp/quick-$id.log)"
done
