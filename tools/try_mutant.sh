#!/bin/sh
# usage: tools/try_mutant.sh <patch.diff> <property-id> [extra vf check args]
# applies a seeded change to /repo, runs the check without touching evidence, and always reverts
patch="$1"; id="$2"; shift 2
git -C /repo apply "$patch" || { echo "patch does not apply"; exit 9; }
trap 'git -C /repo checkout -- . ; git -C /repo clean -fdq' EXIT
/verif/vf check "$id" --no-evidence "$@"
echo "exit=$?"
