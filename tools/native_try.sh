#!/bin/bash
# usage: tools/native_try.sh <pkgdir relative to repo, e.g. json> <test-file.go> [go test args]
# compiles the given _test.go into the package via -overlay (nothing is written to /repo) and runs it natively
pkg="$1"; f="$(readlink -f "$2")"; shift 2
repo="${VF_REPO:-/repo}"
ov=$(mktemp /root/scratch/ov.XXXXXX.json)
printf '{"Replace":{"%s/%s/zz_try_test.go":"%s"}}' "$repo" "$pkg" "$f" > "$ov"
(cd "$repo" && GOFLAGS=-mod=mod GOPROXY=off GOSUMDB=off GOTOOLCHAIN=local go test -vet=off -count=1 -overlay "$ov" -run 'TestTry' -v "$@" "./$pkg" 2>&1 | tail -60)
rm -f "$ov"
