#!/usr/bin/env python3
"""Generates spec/C03.json, spec/C16.json, spec/C07.json from the proto shape table (harness/proto/types.go)."""
import json, os, sys
sys.path.insert(0, os.path.dirname(os.path.abspath(__file__)))
from cap_thorough import cap_spec
root = os.path.dirname(os.path.dirname(os.path.abspath(__file__)))
# shape index -> (name, wide bits used, uses vfLen (string/bytes length), uses vfLen2 (element count / 2nd length))
shapes = [
    ("scalars", 3, True, False), ("ints", 5, False, False), ("fixed", 1, False, False), ("bytes", 0, True, True),
    ("nested", 4, True, False), ("repeated", 3, True, True), ("repscalar", 2, False, True), ("maps", 3, True, True), ("node", 3, True, False),
    ("mapptr", 3, True, True), ("arrays", 0, False, False), ("custom", 2, True, True),
]
def wides(n, tier):
    if n == 0: return [0]
    if tier == 'quick': return [0] + [1 << i for i in range(min(n, 2))]
    return [0] + [1 << i for i in range(n)]
def grid(idx, tier, reps_q, reps_t):
    name, nw, ulen, ulen2 = shapes[idx]
    g = {"vfShape": {"all": [idx]}, "vfWide": {"quick": wides(nw, 'quick'), "thorough": wides(nw, 'thorough')}}
    g["vfLen"] = {"quick": [0, 1] if ulen else [0], "thorough": [0, 1, 2] if ulen else [0]}
    if ulen2:
        g["vfLen2"] = {"quick": reps_q, "thorough": reps_t}
    else:
        g["vfLen2"] = {"all": [0]}
    return g
def units(prefix, harness, desc, covers, reps_q=[0, 1, 2], reps_t=[0, 1, 2, 11], maxpaths=None, extra=None):
    us = []
    for i, (name, nw, ulen, ulen2) in enumerate(shapes):
        # narrow values: all element counts; one full-width field at a time: element counts <= 1 (quick) / <= 2 (thorough)
        rt = [r for r in reps_t if r <= 2] if name in ("maps", "mapptr") else reps_t  # symbolic map keys: pairwise key comparisons explode beyond 2 entries
        g = grid(i, None, reps_q, rt)
        g["vfWide"] = {"all": [0]}
        u = {"name": "%s-%s" % (prefix, name), "desc": desc + " (shape %s, byte-range integers)" % name, "pkg": "./proto", "overlay": ["harness/proto"], "harness": harness,
             "grid": g, "covers": covers, "timeout_ms": 30000, "concret": ["github.com/segmentio/encoding/proto.sizeOfVarint"], "split": {"all": 6}}
        if maxpaths: u["maxpaths"] = maxpaths
        if extra: u.update(extra)
        us.append(u)
        if nw > 0:
            g2 = grid(i, None, [r for r in reps_q if r <= 1], [r for r in reps_t if r <= 1])
            g2["vfWide"] = {"quick": [w for w in wides(nw, 'quick') if w], "thorough": [w for w in wides(nw, 'thorough') if w]}
            g2["vfLen"] = {"quick": [1] if ulen else [0], "thorough": [0, 1] if ulen else [0]}
            u2 = dict(u, name="%s-%s-wide" % (prefix, name), desc=desc + " (shape %s, one full-width integer field at a time)" % name, grid=g2)
            us.append(u2)
    return us
common_assume = [
    "type shapes are the 12 catalogue structs of harness/proto/types.go (gogo-style custom type of variable size as a field, followed by other fields, and as repeated elements; scalars, ints, fixed/float, bytes/array, nested+pointers, repeated, repeated scalars, maps, recursive node, maps of []byte / pointer-to-scalar / pointer-to-message + pointer-held message, byte arrays of 3/6/7/13/14/15 bytes); values are symbolic inside a shape",
    "integer fields take full-width symbolic values one field at a time (vfWide), the others range over 0..255 or -128..127, to bound the product of varint size classes",
    "runtime map/slice primitives bound by //go:linkname are modelled by the real signature of the link target (engine builtin.go linkTarget); sync.Pool/atomic.Value are sequential stubs",
    "strings/bytes lengths and element counts are bounded as listed per unit",
    "exploration strategy: results of proto.sizeOfVarint are case-split eagerly (every feasible value is explored; no value is assumed away)",
]
c03 = {"property": "C03", "title": "proto: Unmarshal(Marshal(v)) == v and Size(v) == len(Marshal(v))", "level": "model_checking", "assumptions": common_assume,
       "outside_claim": ["types outside the catalogue (Message implementations; custom types other than the variable-size one of shape custom)", "element counts other than those listed (0..2, thorough also 11: growth of a repeated field past its initial capacity of 10)", "floats: compared by bit pattern"],
       "units": units("H03", "vfH_c03_shape", "Marshal never fails, Size==len(Marshal), deterministic, round trip", ["done"])}
c03["units"].insert(0, {"name": "H03-varint64", "desc": "encodeVarint/sizeOfVarint/decodeVarint, zig-zag, LE32/64 on every 64-bit value", "pkg": "./proto", "overlay": ["harness/proto"], "harness": "vfH_c07_scalar", "covers": ["done"]})
c03["units"].append({"name": "H03-entry", "desc": "length prefixes at the 1-byte/2-byte varint boundary: map entry with string value, map entry with message value, repeated message element, payload length sweeping 116..132", "pkg": "./proto", "overlay": ["harness/proto"], "harness": "vfH_c03_entry",
                     "grid": {"vfMode": {"all": [0, 1, 2]}, "vfLen": {"quick": "118..130", "thorough": "110..135,250..262"}}, "covers": ["done"], "timeout_ms": 30000, "concret": ["github.com/segmentio/encoding/proto.sizeOfVarint"]})
for idx, nm in ((7, "maps"), (9, "mapptr")):
    c03["units"].append({"name": "H03-seq-" + nm, "desc": "round trip right after an Unmarshal that failed inside a map entry (pooled scratch entry must come back clean) (shape %s)" % nm, "pkg": "./proto", "overlay": ["harness/proto"], "harness": "vfH_c03_seq",
                         "grid": {"vfShape": {"all": [idx]}, "vfMode": {"all": [0, 1, 2] if nm == "mapptr" else [0]}, "vfWide": {"all": [0]}, "vfLen": {"quick": [0, 1], "thorough": [0, 1, 2]}, "vfLen2": {"quick": [1], "thorough": [1, 2]}}, "covers": ["done"], "timeout_ms": 30000, "concret": ["github.com/segmentio/encoding/proto.sizeOfVarint"], "split": {"all": 6}})
c16 = {"property": "C16", "title": "proto.MarshalTo honours the caller's buffer for every size", "level": "model_checking", "assumptions": common_assume + ["every destination length 0..Size(v)+1 is tried on every path; the destination slice has 3 bytes of spare capacity filled with guard bytes"],
       "outside_claim": ["types outside the catalogue"],
       "units": units("H16", "vfH_c16_shape", "MarshalTo for every destination length 0..Size+1 with guard bytes", ["done", "fits", "short"], reps_q=[0, 1, 2], reps_t=[0, 1, 2])}
c07 = {"property": "C07", "title": "proto decoding is total and ignores unknown fields", "level": "model_checking", "assumptions": common_assume + ["allocation limit for a decode of L input bytes: 64*L+1024 bytes per allocation (engine ALLOC check asks the solver for the largest feasible size)"],
       "outside_claim": ["free byte strings longer than the bounds", "types outside the catalogue"],
       "units": []}
c07["units"].append({"name": "H07-varint", "desc": "decodeVarint on free bytes == LEB128 reference with the 10-byte rule", "pkg": "./proto", "overlay": ["harness/proto"], "harness": "vfH_c07_varint", "grid": {"vfLen": {"quick": "0..11", "thorough": "0..12"}}, "covers": ["ok", "err"]})
c07["units"].append({"name": "H07-parse", "desc": "Parse/Scan/RawValue on free bytes: no panic, slices inside the input, progress", "pkg": "./proto", "overlay": ["harness/proto"], "harness": "vfH_c07_parse", "grid": {"vfLen": {"quick": "0..6", "thorough": "0..8"}}, "split": {"all": 5}, "covers": ["ok", "err", "scan-ok"]})
c07["units"] += units("H07-prefix", "vfH_c07_prefix", "every proper prefix of a valid encoding decodes without panic, allocation bounded", ["done"], reps_q=[0, 1, 2], reps_t=[0, 1, 2, 3])
def simple_units(prefix, harness, desc, covers, grid_extra, **kw):
    us = []
    for i, (name, nw, ulen, ulen2) in enumerate(shapes):
        g = {"vfShape": {"all": [i]}, "vfWide": {"all": [0]}, "vfLen2": {"all": [1] if ulen2 else [0]}}
        g.update(grid_extra)
        u = {"name": "%s-%s" % (prefix, name), "desc": desc + " (shape %s)" % name, "pkg": "./proto", "overlay": ["harness/proto"], "harness": harness, "grid": g, "covers": covers,
             "timeout_ms": 30000, "concret": ["github.com/segmentio/encoding/proto.sizeOfVarint"], "split": {"all": 6}}
        u.update(kw)
        us.append(u)
    return us
c07["units"].append({"name": "H07-parselen", "desc": "Parse/Scan on [tag][varint of exactly k bytes unless it overflows][0..2 more bytes]: lengths up to 2^64-1 (n+l overflow), result == reference scanner", "pkg": "./proto", "overlay": ["harness/proto"], "harness": "vfH_c07_parselen",
                     "grid": {"vfLen2": {"all": "1..10"}, "vfLen": {"quick": [0, 2], "thorough": [0, 1, 2, 3]}}, "covers": ["ok", "err"]})
c07["units"] += simple_units("H07-free", "vfH_c07_free", "every byte string of the length into the shape's target: no panic, allocation bounded, accepted input is well-formed", ["rejected"],
                             {"vfLen": {"quick": "0..3", "thorough": "0..4"}, "vfLen2": {"all": [0]}})
c07["units"] += simple_units("H07-unknown", "vfH_c07_unknown", "an undeclared well-formed field (number base+65536*k, k symbolic up to 2^29; varint/fixed64/varlen/fixed32) inserted at every top-level boundary of a valid encoding: decoded value unchanged, Scan enumerates exactly the fields", ["done"],
                             {"vfLen": {"quick": [1], "thorough": [0, 1]}, "vfMode": {"quick": [0, 2], "thorough": [0, 1, 2, 5]}, "vfDeep": {"all": [0]}})
for idx, nm in ((0, "scalars"), (4, "nested"), (7, "maps")):
    c07["units"].append({"name": "H07-unknown-deep-" + nm, "desc": "the same with every base field number 1..top+2, k up to 8190 (numbers up to 2^29) and full-width varint payloads (thorough tier; shape %s)" % nm, "pkg": "./proto", "overlay": ["harness/proto"], "harness": "vfH_c07_unknown",
                         "grid": {"vfShape": {"all": [idx]}, "vfWide": {"all": [0]}, "vfLen": {"all": [1]}, "vfLen2": {"all": [1] if nm == "maps" else [0]}, "vfMode": {"quick": [0], "thorough": [0, 2]}, "vfDeep": {"quick": [0], "thorough": [1]}}, "covers": ["done"], "timeout_ms": 30000, "concret": ["github.com/segmentio/encoding/proto.sizeOfVarint"], "split": {"all": 6}})
c07["outside_claim"] = ["free byte strings longer than the bounds", "types outside the catalogue", "unknown fields inserted inside embedded messages and map entries (top-level boundaries only)", "group wire types 3/4 (rejected by the decoder)"]
def quick_only(spec, keep=()):
    # thorough tier = quick tier except for the named units (the thorough bounds of the others did not finish in 20 min)
    for u in spec["units"]:
        if u["name"] in keep:
            continue
        for k, v in u.get("grid", {}).items():
            if "all" not in v:
                u["grid"][k] = {"quick": v["quick"], "thorough": v["quick"]}
CAPPED = {"C03", "C07", "C01", "C14", "C06"}  # thorough tier bounded to one deepened variable per unit (see cap_thorough.py)
for fn, spec in (("C03", c03), ("C16", c16), ("C07", c07)):
    if fn in CAPPED:
        cap_spec(spec)
    if fn == "C03":
        quick_only(spec, keep=("H03-entry", "H03-scalars", "H03-ints", "H03-bytes", "H03-arrays", "H03-custom"))
    if fn == "C07":
        base = [u for u in spec["units"] if u["name"] == "H07-unknown-scalars"][0]
        for nm, sh in (("scalars", 0),):
            u = json.loads(json.dumps(base))
            u["name"] = "H07-unknown-wide-" + nm
            u["desc"] = "undeclared VARINT field with a full 64-bit symbolic value (1..10-byte varints) inserted at every top-level boundary (shape %s)" % nm
            u["grid"].update({"vfShape": {"all": [sh]}, "vfMode": {"all": [0]}, "vfDeep": {"all": [1]}, "vfLen": {"all": [1]}})
            spec["units"].append(u)
    json.dump(spec, open(os.path.join(root, "spec", fn + ".json"), "w"), indent=1)
print("ok")
