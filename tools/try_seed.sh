#!/bin/bash
# usage: tools/try_seed.sh <seed-dir-name> <property-id> [extra vf check args]
# runs the property's check against a scratch worktree of /repo HEAD with the seeded change applied (never touches /repo)
seed="$1"; id="$2"; shift 2
tag="${SEEDRUN_TAG:+-$SEEDRUN_TAG}"   # set SEEDRUN_TAG to run the same seed twice at once
wt="/tmp/seedrun-$seed-$id$tag"
git -C /repo worktree remove --force "$wt" 2>/dev/null
git -C /repo worktree add -q --detach "$wt" HEAD || exit 9
trap 'git -C /repo worktree remove --force "$wt" 2>/dev/null; rm -rf "$wt.hmod"' EXIT
git -C "$wt" apply "/verif/seeded/$seed/patch.diff" || { echo "$seed: PATCH DOES NOT APPLY"; exit 8; }
VF_REPO="$wt" /verif/vf check "$id" --no-evidence "$@" > "/tmp/seedrun-$seed-$id$tag.log" 2>&1
rc=$?
v=$(grep -c "^VIOLATION" "/tmp/seedrun-$seed-$id$tag.log")
echo "$seed on $id: exit=$rc violations=$v $(grep -E '^VIOLATION' /tmp/seedrun-$seed-$id$tag.log | head -2 | sed 's/.*replay=.verif.replays.//' | tr '\n' ' ')"
