#!/bin/bash
# usage: tools/import_w4.sh <property-id> <pkg-dir> [k]   -- adapts a wave-4 agent's output (/tmp/w4-<id>.patch, /tmp/w4-<id>/<pkg>/zz_demo_test.go,
# /tmp/w4-<id>.meta.txt) to the layout tools/verify_seed.sh expects, then verifies and stores it as seeded/<id>-<k> (default 5).
id="$1"; pkg="$2"; k="${3:-5}"; out="/tmp/out-$id"; mkdir -p "$out"
cp "/tmp/w4-$id.patch" "$out/patch$k.diff" || exit 1
cp "/tmp/w4-$id/$pkg/zz_demo_test.go" "$out/demo${k}_test.go" || exit 1
python3 - "$id" "$pkg" "$k" <<'PY'
import json,sys,re
id,pkg,k=sys.argv[1:4]
t=open('/tmp/w4-%s.meta.txt'%id).read().strip().split('\n')
files=re.findall(r'^\+\+\+ b/(\S+)',open('/tmp/out-%s/patch%s.diff'%(id,k)).read(),re.M)
m={'property':id,'summary':t[0] if t else '','needs':t[1] if len(t)>1 else '','agent_ran':' '.join(t[2:]),'files':files,
   'demo_dir':pkg,'demo_run':"cd %s && go test -vet=off -count=1 -run 'TestSeedDemo' ."%pkg,'wave':4}
json.dump(m,open('/tmp/out-%s/meta%s.json'%(id,k),'w'),indent=1)
PY
/verif/tools/verify_seed.sh "$id" "$k" "$out"
