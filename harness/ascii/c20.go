package ascii

var vfLen, vfLen2 int

// byte-wise definitions from the property statement, written fork-free (vfAnd/vfOr) so that the reference itself
// contributes no paths
func refValid(b []byte) bool {
	all := true
	for i := 0; i < len(b); i++ {
		all = vfAnd(all, b[i] < 0x80)
	}
	return all
}

func refValidPrint(b []byte) bool {
	all := true
	for i := 0; i < len(b); i++ {
		all = vfAnd(all, vfAnd(b[i] >= 0x20, b[i] <= 0x7e))
	}
	return all
}

// equal after mapping only A-Z to a-z
func refFoldEq(a, b []byte) bool {
	eq := true
	for i := 0; i < len(a); i++ {
		x, y := a[i], b[i]
		ux := vfAnd(x >= 'A', x <= 'Z')
		uy := vfAnd(y >= 'A', y <= 'Z')
		lx := byte(vfIte(ux, uint64(x)+0x20, uint64(x)))
		ly := byte(vfIte(uy, uint64(y)+0x20, uint64(y)))
		eq = vfAnd(eq, lx == ly)
	}
	return eq
}

// H20-valid: Valid/ValidString/ValidPrint/ValidPrintString on every byte string of length vfLen.
func vfH_valid() {
	b := vfBytes(vfLen)
	s := string(b)
	want, wantp := refValid(b), refValidPrint(b)
	got := Valid(b)
	if got {
		vfCover("valid-true")
	} else {
		vfCover("valid-false")
	}
	vfAssert(got == want, "Valid")
	vfAssert(ValidString(s) == want, "ValidString")
	gp := ValidPrint(b)
	if gp {
		vfCover("print-true")
	}
	vfAssert(gp == wantp, "ValidPrint")
	vfAssert(ValidPrintString(s) == wantp, "ValidPrintString")
}

func asciiBytes(n int) []byte {
	b := vfBytes(n)
	for i := 0; i < n; i++ {
		vfAssume(b[i] < 0x80)
	}
	return b
}

// H20-fold: EqualFold/EqualFoldString on every pair of ASCII strings of equal length vfLen.
func vfH_fold() {
	a, b := asciiBytes(vfLen), asciiBytes(vfLen)
	want := refFoldEq(a, b)
	got := EqualFold(a, b)
	if got {
		vfCover("fold-true")
	} else {
		vfCover("fold-false")
	}
	vfAssert(got == want, "EqualFold")
	vfAssert(EqualFoldString(string(a), string(b)) == want, "EqualFoldString")
}

// H20-affix: HasPrefixFold/HasSuffixFold (+String) for len(s)=vfLen, len(affix)=vfLen2 and EqualFold on unequal lengths.
func vfH_affix() {
	s, p := asciiBytes(vfLen), asciiBytes(vfLen2)
	ss, ps := string(s), string(p)
	if vfLen != vfLen2 {
		vfAssert(!EqualFold(s, p), "EqualFold-length")
		vfAssert(!EqualFoldString(ss, ps), "EqualFoldString-length")
	}
	if vfLen < vfLen2 {
		vfCover("short")
		vfAssert(!HasPrefixFold(s, p), "HasPrefixFold-short")
		vfAssert(!HasSuffixFold(s, p), "HasSuffixFold-short")
		vfAssert(!HasPrefixFoldString(ss, ps), "HasPrefixFoldString-short")
		vfAssert(!HasSuffixFoldString(ss, ps), "HasSuffixFoldString-short")
		return
	}
	vfCover("long-enough")
	wp := refFoldEq(s[:vfLen2], p)
	wsuf := refFoldEq(s[vfLen-vfLen2:], p)
	vfAssert(HasPrefixFold(s, p) == wp, "HasPrefixFold")
	vfAssert(HasPrefixFoldString(ss, ps) == wp, "HasPrefixFoldString")
	vfAssert(HasSuffixFold(s, p) == wsuf, "HasSuffixFold")
	vfAssert(HasSuffixFoldString(ss, ps) == wsuf, "HasSuffixFoldString")
}

// H20-scalar: byte and rune predicates.
func vfH_scalar() {
	b := vfByte()
	vfAssert(ValidByte(b) == (b < 0x80), "ValidByte")
	vfAssert(ValidPrintByte(b) == vfAnd(b >= 0x20, b <= 0x7e), "ValidPrintByte")
	r := rune(vfU32())
	vfAssume(r >= 0)
	vfAssert(ValidRune(r) == (r < 0x80), "ValidRune")
	vfAssert(ValidPrintRune(r) == vfAnd(r >= 0x20, r <= 0x7e), "ValidPrintRune")
	vfCover("done")
}
