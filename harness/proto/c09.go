package proto

// H09-proto: first use of distinct message types in sequence under the engine's adversarial environment model
// (stale codec-cache snapshots at every atomic load, frozen published caches, adversarial pool): every call returns its
// solo result.
func vfH_c09_proto() {
	vfConcurrency(1)
	// concrete values: the quantifier of C09 is the environment (snapshots observed, pool hand-backs), not the data
	var a any = pScalars{A: -3, B: 300, C: "hi", D: true, E: -70000}
	var b any = pInts{A: 1, B: -2, C: 3, D: 1 << 40, E: -5}
	ba, ea := Marshal(a)
	vfAssert(ea == nil, "first-type-marshal")
	bb, eb := Marshal(b)
	vfAssert(eb == nil, "second-type-marshal")
	ba2, ea2 := Marshal(a)
	vfAssert(ea2 == nil && string(ba2) == string(ba), "first-type-again-same-bytes")
	vfAssert(Size(a) == len(ba), "size-first")
	vfAssert(Size(b) == len(bb), "size-second")
	pa := shapes[0].newp()
	vfAssert(Unmarshal(ba, pa) == nil, "unmarshal-first")
	shapes[0].check(a, pa)
	pb := shapes[1].newp()
	vfAssert(Unmarshal(bb, pb) == nil, "unmarshal-second")
	shapes[1].check(b, pb)
	// maps use a pooled scratch struct
	var m any = pMaps{A: map[string]int32{"k": 4, "l": -1}, B: map[int64]pInner{9: {X: 1, Y: "y"}}}
	bm, em := Marshal(m)
	vfAssert(em == nil, "map-type-marshal")
	pm := shapes[7].newp()
	vfAssert(Unmarshal(bm, pm) == nil, "unmarshal-map-type")
	shapes[7].check(m, pm)
	vfCover("done")
}
