package proto



// reference LEB128 decoder with the 10-byte / 64-bit overflow rule of the protobuf encoding guide
func refVarint(b []byte) (v uint64, n int, ok bool) {
	for i := 0; i < len(b) && i < 10; i++ {
		c := b[i]
		if i == 9 && c > 1 {
			return 0, 0, false
		}
		v |= uint64(c&0x7f) << (7 * uint(i))
		if c < 0x80 {
			return v, i + 1, true
		}
	}
	return 0, 0, false
}

// H07-varint: decodeVarint on free bytes == reference; encodeVarint/sizeOfVarint round trip at full 64-bit width.
func vfH_c07_varint() {
	b := vfBytes(vfLen)
	v, n, err := decodeVarint(b)
	rv, rn, ok := refVarint(b)
	vfAssert((err == nil) == ok, "accept-iff")
	vfAssert(n >= 0, "n-nonneg")
	vfAssert(n <= len(b), "n-within-input")
	if err == nil {
		vfCover("ok")
		vfAssert(v == rv, "value")
		vfAssert(n == rn, "len")
		var buf [10]byte
		m, e2 := encodeVarint(buf[:], v)
		vfAssert(e2 == nil, "enc-ok")
		vfAssert(m == sizeOfVarint(v), "size")
		vfAssert(m <= n, "minimal")
		w, k, e3 := decodeVarint(buf[:m])
		vfAssert(e3 == nil, "redecode-ok")
		vfAssert(w == v, "roundtrip")
		vfAssert(k == m, "roundtrip-len")
	} else {
		vfCover("err")
	}
}

// H07-codec64: for every 64-bit value encode/size/decode agree; zig-zag 32/64 are inverse bijections; LE32/LE64.
func vfH_c07_scalar() {
	v := vfU64()
	var buf [10]byte
	m, err := encodeVarint(buf[:], v)
	vfAssert(err == nil, "enc-ok")
	vfAssert(m == sizeOfVarint(v), "size==written")
	vfAssert(m >= 1, "size>=1")
	vfAssert(m <= 10, "size<=10")
	w, k, e2 := decodeVarint(buf[:m])
	vfAssert(e2 == nil, "dec-ok")
	vfAssert(w == v, "varint-roundtrip")
	vfAssert(k == m, "varint-len")
	rv, rn, ok := refVarint(buf[:m])
	vfAssert(ok, "ref-accepts")
	vfAssert(rv == v, "ref-value")
	vfAssert(rn == m, "ref-len")
	// short buffers
	for l := 0; l < 10; l++ {
		var sb [10]byte
		n2, e := encodeVarint(sb[:l], v)
		if l < m {
			vfAssert(e != nil, "short-buffer-error")
			vfAssert(n2 == 0, "short-buffer-zero")
		} else {
			vfAssert(e == nil, "long-enough-ok")
		}
	}
	i64 := int64(v)
	vfAssert(decodeZigZag64(encodeZigZag64(i64)) == i64, "zigzag64")
	vfAssert(encodeZigZag64(decodeZigZag64(v)) == v, "zigzag64-inv")
	i32 := int32(v)
	vfAssert(decodeZigZag32(encodeZigZag32(i32)) == i32, "zigzag32")
	vfAssert(sizeOfVarintZigZag(i64) == sizeOfVarint(encodeZigZag64(i64)), "zigzag-size")
	var f8 [8]byte
	n8, _ := encodeLE64(f8[:], v)
	x8, m8, e8 := decodeLE64(f8[:])
	vfAssert(n8 == 8 && m8 == 8 && e8 == nil && x8 == v, "le64")
	n4, _ := encodeLE32(f8[:], uint32(v))
	x4, m4, e4 := decodeLE32(f8[:4])
	vfAssert(n4 == 4 && m4 == 4 && e4 == nil && x4 == uint32(v), "le32")
	vfCover("done")
}

// H07-parse: Parse/Scan on free bytes never panic, slices lie inside the input, Scan makes progress and enumerates
// what repeated Parse calls return.
func vfH_c07_parse() {
	b := vfBytes(vfLen)
	f, t, v, rest, err := Parse(b)
	_ = f
	if err == nil {
		vfCover("ok")
		vfAssert(t == Varint || t == Fixed64 || t == Varlen || t == Fixed32, "wire-type")
		ov := vfOffsetIn(v, b)
		or := vfOffsetIn(rest, b)
		if len(v) > 0 {
			vfAssert(ov >= 1, "value-inside-input")
		}
		vfAssert(or+len(rest) == len(b), "rest-is-suffix")
		if len(v) > 0 {
			vfAssert(ov+len(v) == or, "value-adjacent-to-rest")
		}
		vfAssert(len(rest) < len(b), "progress")
		switch t {
		case Fixed32:
			vfAssert(len(v) == 4, "fixed32-len")
			_ = v.Fixed32()
		case Fixed64:
			vfAssert(len(v) == 8, "fixed64-len")
			_ = v.Fixed64()
		case Varint:
			_, n, ok := refVarint(v)
			vfAssert(ok, "varint-wellformed")
			vfAssert(n == len(v), "varint-exact")
			_ = v.Varint()
		}
	} else {
		vfCover("err")
	}
	cnt := 0
	total := 0
	err2 := Scan(b, func(_ FieldNumber, _ WireType, rv RawValue) (bool, error) { cnt++; total += len(rv); return true, nil })
	if err2 == nil {
		vfCover("scan-ok")
	}
	vfAssert(cnt <= len(b), "scan-progress")
	vfAssert(total <= len(b), "scan-within")
	vfAssert((err2 == nil && len(b) > 0) == (err == nil && err2 == nil), "scan-consistent-with-parse")
}
