package proto

import "reflect"

// ---- reference wire builders (protobuf encoding guide: tag = (number<<3)|wiretype as a base-128 varint)

func pbVarint(dst []byte, v uint64) []byte {
	for v >= 0x80 {
		dst = append(dst, byte(v)|0x80)
		v >>= 7
	}
	return append(dst, byte(v))
}
func pbFieldVarint(dst []byte, num int, v uint64) []byte {
	return pbVarint(pbVarint(dst, uint64(num)<<3|0), v)
}
func pbFieldFixed32(dst []byte, num int, v uint32) []byte {
	dst = pbVarint(dst, uint64(num)<<3|5)
	return append(dst, byte(v), byte(v>>8), byte(v>>16), byte(v>>24))
}
func pbFieldBytes(dst []byte, num int, b []byte) []byte {
	dst = pbVarint(dst, uint64(num)<<3|2)
	dst = pbVarint(dst, uint64(len(b)))
	return append(dst, b...)
}

var c19nums = []int{1, 2, 5, 31, 32, 33, 63, 64, 65, 100, 127, 128, 255, 256, 257, 299}

// H19-msg: MessageRewriter over a table of vfLen2 entries with rules for field f1 (a varint replacement) and, when it
// fits, f1+32 (a bytes replacement); the input message is a template with symbolic presence flags and symbolic
// payloads: [g: varint]? [f1: varint]? [u: fixed32 (not templated)]? [f1: varint again]? [f2: bytes]? [h: bytes]?
// Expected (refRewrite): first occurrence of a templated field is replaced, later ones dropped, other fields carried
// over byte for byte in order, absent templated fields appended in table order. Input, output prefix and the rule
// payloads are unchanged.
func vfH_c19_msg() {
	n := vfLen2 // table length
	f1 := c19nums[vfIntIn(0, len(c19nums)-1)]
	vfAssume(f1 < n)
	f2 := f1 + 32
	has2 := f2 < n
	x := uint64(vfByte())
	y := vfBytes(1)
	r := make(MessageRewriter, n)
	r[f1] = FieldNumber(f1).Uint64(x)
	rule1 := append([]byte(nil), r[f1].(RawMessage)...)
	if has2 {
		r[f2] = FieldNumber(f2).Bytes(y)
	}
	// other field numbers: g below f1 (if any, not templated), u and h above the table
	u, h := n+1, n+40
	var in []byte
	var want []byte
	want = append(want, 'P')
	seen1, seen2 := false, false
	if vfBool() {
		g := uint64(vfByte())
		in = pbFieldVarint(in, n+7, g)
		want = pbFieldVarint(want, n+7, g)
	}
	if vfBool() {
		in = pbFieldVarint(in, f1, uint64(vfByte()))
		want = pbFieldVarint(want, f1, x)
		seen1 = true
	}
	if vfBool() {
		c := vfU32()
		in = pbFieldFixed32(in, u, c)
		want = pbFieldFixed32(want, u, c)
	}
	if vfBool() {
		in = pbFieldVarint(in, f1, uint64(vfByte()))
		if !seen1 {
			want = pbFieldVarint(want, f1, x)
			seen1 = true
		}
	}
	if has2 && vfBool() {
		in = pbFieldBytes(in, f2, vfBytes(1))
		want = pbFieldBytes(want, f2, y)
		seen2 = true
	}
	if vfBool() {
		hb := vfBytes(vfLen)
		in = pbFieldBytes(in, h, hb)
		want = pbFieldBytes(want, h, hb)
	}
	if !seen1 {
		want = pbFieldVarint(want, f1, x)
	}
	if has2 && !seen2 {
		want = pbFieldBytes(want, f2, y)
	}
	saved := append([]byte(nil), in...)
	out, err := r.Rewrite([]byte{'P'}, in)
	vfAssert(err == nil, "rewrite-ok")
	if err == nil {
		vfAssert(string(out) == string(want), "output==reference-rewrite")
		vfAssert(Scan(out[1:], func(FieldNumber, WireType, RawValue) (bool, error) { return true, nil }) == nil, "output-is-a-valid-message")
	}
	vfAssert(string(in) == string(saved), "input-unchanged")
	vfAssert(string(r[f1].(RawMessage)) == string(rule1), "template-unchanged")
	vfCover("done")
}

// H19-fieldset: the seen-bitmap used by MessageRewriter: for the table lengths of the grid and every index i < n,
// set/has work without panic, are independent for distinct indexes, and unset restores.
func vfH_c19_fieldset() {
	n := vfLen2 // table length (grid parameter)
	i := vfInt()
	j := vfInt()
	vfAssume(i >= 0)
	vfAssume(i < n)
	vfAssume(j >= 0)
	vfAssume(j < n)
	fs := makeFieldset(n + 1) // as MessageRewriter.Rewrite does for len(r) == n
	x, _ := fs.index(i)
	vfAssert(x < len(fs), "index-in-range")
	if x >= len(fs) {
		return
	}
	vfAssert(!fs.has(i), "initially-unset")
	fs.set(i)
	vfAssert(fs.has(i), "set-then-has")
	if i != j {
		xj, _ := fs.index(j)
		if xj < len(fs) {
			vfAssert(!fs.has(j), "distinct-indexes-are-independent")
		}
	}
	fs.unset(i)
	vfAssert(!fs.has(i), "unset-restores")
	vfCover("done")
}

// H19-bitor: BitOrRewriter for the plain varint kinds: the rewritten field decodes to old|mask (mask when the field is
// absent), through a MessageRewriter table. vfMode: 0 uint64, 1 int64, 2 int32.
func vfH_c19_bitor() {
	mask := uint64(vfByte())
	old := uint64(vfByte())
	present := vfBool()
	var rw Rewriter
	var err error
	switch vfMode {
	case 0:
		rw, err = BitOrRewriter(TypeOf(reflect.TypeOf(uint64(0))), 3, mask)
	case 1:
		rw, err = BitOrRewriter(TypeOf(reflect.TypeOf(int64(0))), 3, int64(mask))
	case 2:
		rw, err = BitOrRewriter(TypeOf(reflect.TypeOf(int32(0))), 3, int32(mask))
	}
	vfAssert(err == nil, "constructed")
	if err != nil {
		return
	}
	r := make(MessageRewriter, 5)
	r[3] = rw
	var in []byte
	in = pbFieldVarint(in, 1, 9)
	if present {
		in = pbFieldVarint(in, 3, old)
	}
	in = pbFieldBytes(in, 4, []byte{'z'})
	want := pbFieldVarint(nil, 1, 9)
	if present {
		want = pbFieldVarint(want, 3, old|mask)
	}
	want = pbFieldBytes(want, 4, []byte{'z'})
	if !present {
		want = pbFieldVarint(want, 3, mask)
	}
	out, err := r.Rewrite(nil, in)
	vfAssert(err == nil, "rewrite-ok")
	if err == nil {
		vfAssert(string(out) == string(want), "bitor-output")
	}
	vfCover("done")
}

type pTmplSub struct {
	Flags uint64 `protobuf:"varint,1,opt,name=flags"`
	N     int64  `protobuf:"varint,2,opt,name=n"`
}

type pTmpl struct {
	Count int64    `protobuf:"varint,1,opt,name=count"`
	Flags uint64   `protobuf:"varint,2,opt,name=flags"`
	Name  string   `protobuf:"bytes,3,opt,name=name"`
	Sub   pTmplSub `protobuf:"bytes,4,opt,name=sub"`
	Other int32    `protobuf:"varint,5,opt,name=other"`
}

// H19-template: ParseRewriteTemplate with RewriterRules (BitOr on "flags" at top level and inside "sub"): the template
// names a ruled field and un-ruled fields, in either order (vfMode); applied to an encoded message the result decodes
// to the original with exactly the templated fields replaced and the ruled ones bit-or'ed; untouched fields keep
// their values; input unchanged.
func vfH_c19_template() {
	d1, d2 := vfByte(), vfByte()
	vfAssume(d1 >= '1' && d1 <= '9')
	vfAssume(d2 >= '0' && d2 <= '9')
	cnt := int64(d1-'0')*10 + int64(d2-'0') // template value for count: two digits
	mask := uint64(d2 - '0')                // template value for flags: one digit
	var tmpl []byte
	switch vfMode {
	case 0:
		tmpl = append(tmpl, `{"flags":`...)
		tmpl = append(tmpl, d2)
		tmpl = append(tmpl, `,"count":`...)
		tmpl = append(tmpl, d1, d2)
		tmpl = append(tmpl, `,"name":"t"}`...)
	case 1:
		tmpl = append(tmpl, `{"count":`...)
		tmpl = append(tmpl, d1, d2)
		tmpl = append(tmpl, `,"name":"t","flags":`...)
		tmpl = append(tmpl, d2)
		tmpl = append(tmpl, '}')
	default:
		tmpl = append(tmpl, `{"sub":{"flags":`...)
		tmpl = append(tmpl, d2)
		tmpl = append(tmpl, `,"n":`...)
		tmpl = append(tmpl, d1, d2)
		tmpl = append(tmpl, `},"count":`...)
		tmpl = append(tmpl, d1, d2)
		tmpl = append(tmpl, '}')
	}
	rules := RewriterRules{"flags": BitOr[uint64]{}, "sub": RewriterRules{"flags": BitOr[uint64]{}}}
	rw, err := ParseRewriteTemplate(TypeOf(reflect.TypeOf(pTmpl{})), tmpl, rules)
	vfAssert(err == nil, "template-parses")
	if err != nil {
		return
	}
	orig := pTmpl{Count: int64(vfByte()), Flags: uint64(vfByte()), Name: "orig", Sub: pTmplSub{Flags: uint64(vfByte()), N: 7}, Other: 3}
	in, err := Marshal(orig)
	vfAssert(err == nil, "marshal-ok")
	saved := append([]byte(nil), in...)
	out, err := rw.Rewrite(nil, in)
	vfAssert(err == nil, "rewrite-ok")
	if err != nil {
		return
	}
	var got pTmpl
	err = Unmarshal(out, &got)
	vfAssert(err == nil, "output-decodes")
	if err == nil {
		want := orig
		want.Count = cnt
		if vfMode < 2 {
			want.Flags = orig.Flags | mask
			want.Name = "t"
		} else {
			want.Sub.Flags = orig.Sub.Flags | mask
			want.Sub.N = cnt
		}
		vfAssert(got.Count == want.Count, "count-replaced")
		vfAssert(got.Flags == want.Flags, "flags-bit-ored-or-untouched")
		vfAssert(got.Name == want.Name, "name-replaced-or-untouched")
		vfAssert(got.Sub.Flags == want.Sub.Flags, "sub.flags-bit-ored-or-untouched")
		vfAssert(got.Sub.N == want.Sub.N, "sub.n-replaced-or-untouched")
		vfAssert(got.Other == want.Other, "other-untouched")
	}
	vfAssert(string(in) == string(saved), "input-unchanged")
	vfCover("done")
}

type pTmplRep struct {
	Left  []string   `protobuf:"bytes,1,rep,name=left"`
	Right []pTmplSub `protobuf:"bytes,2,rep,name=right"`
	Third []string   `protobuf:"bytes,3,rep,name=third"`
	Tail  int64      `protobuf:"varint,4,opt,name=tail"`
}

// H19-tmplrep: a template over SEVERAL repeated fields (strings and nested messages) with vfLen / vfLen2 elements each
// (1..4: the element lists pass through every slice capacity class of the parser's scratch list), followed by a scalar:
// every templated list is replaced by exactly its own template elements, the input is unchanged.
func vfH_c19_tmplrep() {
	k, m := vfLen, vfLen2
	var ds [8]byte
	for i := range ds {
		ds[i] = vfByte()
		vfAssume(ds[i] >= '1')
		vfAssume(ds[i] <= '9')
	}
	tmpl := append([]byte(nil), `{"left":[`...)
	for i := 0; i < k; i++ {
		if i > 0 {
			tmpl = append(tmpl, ',')
		}
		tmpl = append(tmpl, '"', 'l', ds[i], '"')
	}
	tmpl = append(tmpl, `],"right":[`...)
	for i := 0; i < m; i++ {
		if i > 0 {
			tmpl = append(tmpl, ',')
		}
		tmpl = append(tmpl, `{"n":`...)
		tmpl = append(tmpl, ds[4+i], '}')
	}
	tmpl = append(tmpl, `],"third":[`...)
	for i := 0; i < k; i++ {
		if i > 0 {
			tmpl = append(tmpl, ',')
		}
		tmpl = append(tmpl, '"', 't', ds[i], '"')
	}
	tmpl = append(tmpl, `],"tail":`...)
	tmpl = append(tmpl, ds[7], '}')
	savedT := append([]byte(nil), tmpl...)
	rw, err := ParseRewriteTemplate(TypeOf(reflect.TypeOf(pTmplRep{})), tmpl)
	vfAssert(err == nil, "template-parses")
	if err != nil {
		return
	}
	orig := pTmplRep{Left: []string{"x"}, Right: []pTmplSub{{N: 9}}, Third: []string{"y"}, Tail: 3}
	in, err := Marshal(orig)
	vfAssert(err == nil, "marshal-ok")
	saved := append([]byte(nil), in...)
	out, err := rw.Rewrite(nil, in)
	vfAssert(err == nil, "rewrite-ok")
	if err != nil {
		return
	}
	var got pTmplRep
	err = Unmarshal(out, &got)
	vfAssert(err == nil, "output-decodes")
	if err == nil {
		vfAssert(len(got.Left) == k, "left-count")
		vfAssert(len(got.Right) == m, "right-count")
		vfAssert(len(got.Third) == k, "third-count")
		if len(got.Left) == k && len(got.Third) == k {
			for i := 0; i < k; i++ {
				vfAssert(got.Left[i] == string([]byte{'l', ds[i]}), "left-elements")
				vfAssert(got.Third[i] == string([]byte{'t', ds[i]}), "third-elements")
			}
		}
		if len(got.Right) == m {
			for i := 0; i < m; i++ {
				vfAssert(got.Right[i].N == int64(ds[4+i]-'0'), "right-elements")
			}
		}
		vfAssert(got.Tail == int64(ds[7]-'0'), "tail-replaced")
	}
	vfAssert(string(in) == string(saved), "input-unchanged")
	vfAssert(string(tmpl) == string(savedT), "template-unchanged")
	vfCover("done")
}
