package proto

import "io"

func vfErrIs(err, target error) bool {
	for i := 0; i < 8 && err != nil; i++ {
		if err == target {
			return true
		}
		u, ok := err.(interface{ Unwrap() error })
		if !ok {
			return false
		}
		err = u.Unwrap()
	}
	return false
}

// H03-shape: Marshal never fails, Size == len(Marshal), Marshal is deterministic for map-free values,
// Unmarshal(Marshal(v)) reproduces v up to nil-vs-empty.
func vfH_c03_shape() {
	sh := shapes[vfShape]
	v := sh.mk()
	b, err := Marshal(v)
	vfAssert(err == nil, "marshal-never-fails")
	if err != nil {
		return
	}
	vfAssert(len(b) == Size(v), "Size==len(Marshal)")
	if !sh.hasMap {
		b2, err2 := Marshal(v)
		vfAssert(err2 == nil, "marshal-never-fails")
		vfAssert(string(b) == string(b2), "marshal-deterministic")
	}
	p := sh.newp()
	err = Unmarshal(b, p)
	vfAssert(err == nil, "unmarshal-of-marshal-ok")
	if err == nil {
		sh.check(v, p)
	}
	vfCover("done")
}

// H16-shape: MarshalTo for EVERY destination length 0..Size+1, destination followed by spare capacity with guard bytes.
func vfH_c16_shape() {
	sh := shapes[vfShape]
	v := sh.mk()
	want, err := Marshal(v)
	if err != nil {
		return // C03's obligation
	}
	size := len(want)
	vfAssert(size == Size(v), "Size==len(Marshal)")
	for m := 0; m <= size+1; m++ {
		buf := make([]byte, m+3)
		for i := range buf {
			buf[i] = 0xAA
		}
		n, err := MarshalTo(buf[:m], v)
		if m >= size {
			vfCover("fits")
			vfAssert(err == nil, "fits-no-error")
			vfAssert(n == size, "fits-returns-Size")
			if !sh.hasMap && err == nil && n == size {
				vfAssert(string(buf[:size]) == string(want), "fits-bytes==Marshal")
			}
		} else {
			vfCover("short")
			vfAssert(err != nil, "short-buffer-error")
			if err != nil {
				vfAssert(vfErrIs(err, io.ErrShortBuffer), "short-buffer-is-ErrShortBuffer")
			}
		}
		for i := m; i < len(buf); i++ {
			vfAssert(buf[i] == 0xAA, "no-write-at-or-beyond-len")
		}
	}
	vfCover("done")
}

// H07-prefix: every proper prefix of a valid encoding (cut at every byte offset) decodes without panic into every
// shape's target; so does the full encoding followed by garbage-free truncation points. Allocation stays bounded.
func vfH_c07_prefix() {
	sh := shapes[vfShape]
	v := sh.mk()
	b, err := Marshal(v)
	if err != nil {
		return
	}
	for cut := 0; cut < len(b); cut++ {
		p := sh.newp()
		vfAllocLimit(64*len(b) + 1024)
		_ = Unmarshal(b[:cut], p)
	}
	vfCover("done")
}

type pMapS struct {
	M map[string]string
	N map[int32]pInner
	R []pInner
}

// H03-entry: length prefixes at the one-byte / two-byte varint boundary: a map entry (string value, message value) and
// a repeated message element whose payload is vfLen bytes long, vfLen sweeping across 128 minus the few bytes of tags
// and nested prefixes. Marshal never fails, Size == len(Marshal), round trip.
func vfH_c03_entry() {
	v := pMapS{}
	s := vfString(vfLen)
	switch vfMode {
	case 0:
		v.M = map[string]string{vfString(1): s}
	case 1:
		v.N = map[int32]pInner{int32(int8(vfByte())): {X: 1, Y: s}}
	default:
		v.R = []pInner{{X: int32(int8(vfByte())), Y: s}}
	}
	b, err := Marshal(v)
	vfAssert(err == nil, "marshal-never-fails")
	if err != nil {
		return
	}
	vfAssert(len(b) == Size(v), "Size==len(Marshal)")
	var g pMapS
	err = Unmarshal(b, &g)
	vfAssert(err == nil, "unmarshal-of-marshal-ok")
	if err == nil {
		switch vfMode {
		case 0:
			vfAssert(len(g.M) == 1, "entry.M-len")
			for k, x := range v.M {
				vfAssert(g.M[k] == x, "entry.M-val")
			}
		case 1:
			vfAssert(len(g.N) == 1, "entry.N-len")
			for k, x := range v.N {
				checkInner(x, g.N[k], "entry.N-val")
			}
		default:
			vfAssert(len(g.R) == 1, "entry.R-len")
			if len(g.R) == 1 {
				checkInner(v.R[0], g.R[0], "entry.R-val")
			}
		}
	}
	vfCover("done")
}

// H03-seq: a failed Unmarshal must leave nothing behind (pooled map-entry scratch structs, partially built values):
// step 1 decodes a message whose map entry breaks off after part of it was decoded (wrong wire type on the last field of
// the entry's message value / of the key); step 2 is the ordinary round trip of the shape, which must be unaffected.
func vfH_c03_seq() {
	sh := shapes[vfShape]
	var bad []byte
	switch sh.name {
	case "maps":
		// field 2 = map<int64, pInner>: entry { key=5, value={X=9, Y="st"}, then a field with the invalid wire type 7 }:
		// key and value are fully decoded into the scratch entry before the entry is rejected
		val := pbFieldBytes(pbFieldVarint(nil, 1, 9), 2, []byte("st"))
		entry := append(pbFieldBytes(pbFieldVarint(nil, 1, 5), 2, val), 3<<3|7)
		bad = pbFieldBytes(nil, 2, entry)
	case "mapptr":
		// field 3 = map<uint32,*pInner>, the same; (field 1 = map<int32,bytes> and field 2 = map<string,*int64> likewise)
		val := pbFieldBytes(pbFieldVarint(nil, 1, 3), 2, []byte("st"))
		entry := append(pbFieldBytes(pbFieldVarint(nil, 1, 1), 2, val), 3<<3|7)
		switch vfMode {
		case 0:
			bad = pbFieldBytes(nil, 3, entry)
		case 1:
			bad = pbFieldBytes(nil, 1, append(pbFieldBytes(pbFieldVarint(nil, 1, 2), 2, []byte("stale-bytes")), 3<<3|7))
		default:
			bad = pbFieldBytes(nil, 2, append(pbFieldVarint(pbFieldBytes(nil, 1, []byte("zz")), 2, 77), 3<<3|7))
		}
	default:
		return
	}
	err := Unmarshal(bad, sh.newp())
	vfAssert(err != nil, "step-1-fails-as-intended")
	v := sh.mk()
	b, err := Marshal(v)
	vfAssert(err == nil, "marshal-never-fails")
	if err != nil {
		return
	}
	p := sh.newp()
	err = Unmarshal(b, p)
	vfAssert(err == nil, "unmarshal-of-marshal-ok")
	if err == nil {
		sh.check(v, p)
	}
	vfCover("done")
}
