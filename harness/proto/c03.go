package proto

import "io"

func vfErrIs(err, target error) bool {
	for i := 0; i < 8 && err != nil; i++ {
		if err == target {
			return true
		}
		u, ok := err.(interface{ Unwrap() error })
		if !ok {
			return false
		}
		err = u.Unwrap()
	}
	return false
}

// H03-shape: Marshal never fails, Size == len(Marshal), Marshal is deterministic for map-free values,
// Unmarshal(Marshal(v)) reproduces v up to nil-vs-empty.
func vfH_c03_shape() {
	sh := shapes[vfShape]
	v := sh.mk()
	b, err := Marshal(v)
	vfAssert(err == nil, "marshal-never-fails")
	if err != nil {
		return
	}
	vfAssert(len(b) == Size(v), "Size==len(Marshal)")
	if !sh.hasMap {
		b2, err2 := Marshal(v)
		vfAssert(err2 == nil, "marshal-never-fails")
		vfAssert(string(b) == string(b2), "marshal-deterministic")
	}
	p := sh.newp()
	err = Unmarshal(b, p)
	vfAssert(err == nil, "unmarshal-of-marshal-ok")
	if err == nil {
		sh.check(v, p)
	}
	vfCover("done")
}

// H16-shape: MarshalTo for EVERY destination length 0..Size+1, destination followed by spare capacity with guard bytes.
func vfH_c16_shape() {
	sh := shapes[vfShape]
	v := sh.mk()
	want, err := Marshal(v)
	if err != nil {
		return // C03's obligation
	}
	size := len(want)
	vfAssert(size == Size(v), "Size==len(Marshal)")
	for m := 0; m <= size+1; m++ {
		buf := make([]byte, m+3)
		for i := range buf {
			buf[i] = 0xAA
		}
		n, err := MarshalTo(buf[:m], v)
		if m >= size {
			vfCover("fits")
			vfAssert(err == nil, "fits-no-error")
			vfAssert(n == size, "fits-returns-Size")
			if !sh.hasMap && err == nil && n == size {
				vfAssert(string(buf[:size]) == string(want), "fits-bytes==Marshal")
			}
		} else {
			vfCover("short")
			vfAssert(err != nil, "short-buffer-error")
			if err != nil {
				vfAssert(vfErrIs(err, io.ErrShortBuffer), "short-buffer-is-ErrShortBuffer")
			}
		}
		for i := m; i < len(buf); i++ {
			vfAssert(buf[i] == 0xAA, "no-write-at-or-beyond-len")
		}
	}
	vfCover("done")
}

// H07-prefix: every proper prefix of a valid encoding (cut at every byte offset) decodes without panic into every
// shape's target; so does the full encoding followed by garbage-free truncation points. Allocation stays bounded.
func vfH_c07_prefix() {
	sh := shapes[vfShape]
	v := sh.mk()
	b, err := Marshal(v)
	if err != nil {
		return
	}
	for cut := 0; cut < len(b); cut++ {
		p := sh.newp()
		vfAllocLimit(64*len(b) + 1024)
		_ = Unmarshal(b[:cut], p)
	}
	vfCover("done")
}

type pMapS struct {
	M map[string]string
	N map[int32]pInner
	R []pInner
}

// H03-entry: length prefixes at the one-byte / two-byte varint boundary: a map entry (string value, message value) and
// a repeated message element whose payload is vfLen bytes long, vfLen sweeping across 128 minus the few bytes of tags
// and nested prefixes. Marshal never fails, Size == len(Marshal), round trip.
func vfH_c03_entry() {
	v := pMapS{}
	s := vfString(vfLen)
	switch vfMode {
	case 0:
		v.M = map[string]string{vfString(1): s}
	case 1:
		v.N = map[int32]pInner{int32(int8(vfByte())): {X: 1, Y: s}}
	default:
		v.R = []pInner{{X: int32(int8(vfByte())), Y: s}}
	}
	b, err := Marshal(v)
	vfAssert(err == nil, "marshal-never-fails")
	if err != nil {
		return
	}
	vfAssert(len(b) == Size(v), "Size==len(Marshal)")
	var g pMapS
	err = Unmarshal(b, &g)
	vfAssert(err == nil, "unmarshal-of-marshal-ok")
	if err == nil {
		switch vfMode {
		case 0:
			vfAssert(len(g.M) == 1, "entry.M-len")
			for k, x := range v.M {
				vfAssert(g.M[k] == x, "entry.M-val")
			}
		case 1:
			vfAssert(len(g.N) == 1, "entry.N-len")
			for k, x := range v.N {
				checkInner(x, g.N[k], "entry.N-val")
			}
		default:
			vfAssert(len(g.R) == 1, "entry.R-len")
			if len(g.R) == 1 {
				checkInner(v.R[0], g.R[0], "entry.R-val")
			}
		}
	}
	vfCover("done")
}
