package proto

var vfDeep int

func unkVal() uint64 {
	if vfDeep != 0 {
		return vfU64()
	}
	return uint64(vfByte())
}

// refField: one top-level field of a well-formed message by the encoding guide (independent of proto.Parse).
type refField struct {
	num      uint64
	wt       int
	off, end int // [off,end) covers tag and payload
	plen     int // payload length as Scan reports it (varint: the varint bytes; varlen: the content; fixed: 4/8)
}

func refFields(b []byte) ([]refField, bool) {
	var fs []refField
	off := 0
	for off < len(b) {
		tag, n, ok := refVarint(b[off:])
		if !ok {
			return fs, false
		}
		f := refField{num: tag >> 3, wt: int(tag & 7), off: off}
		p := off + n
		switch f.wt {
		case 0:
			_, m, ok := refVarint(b[p:])
			if !ok {
				return fs, false
			}
			f.plen, f.end = m, p+m
		case 1:
			f.plen, f.end = 8, p+8
		case 5:
			f.plen, f.end = 4, p+4
		case 2:
			l, m, ok := refVarint(b[p:])
			if !ok || l > uint64(len(b)-p-m) {
				return fs, false
			}
			f.plen, f.end = int(l), p+m+int(l)
		default:
			return fs, false
		}
		if f.end > len(b) {
			return fs, false
		}
		fs = append(fs, f)
		off = f.end
	}
	return fs, true
}

// unknownField: a well-formed field of wire type vfMode (0 varint, 1 fixed64, 2 varlen, 5 fixed32) whose number is not
// declared by the shape: base + 65536*k with base concrete in 1..top and k symbolic in 0..8190 (k>0 makes the number
// congruent to a DECLARED one modulo 2^16 when base is declared; k==0 requires base undeclared). Numbers are valid
// protobuf field numbers (< 2^29).
func unknownField(sh shape) ([]byte, uint64) {
	top := 0
	for _, n := range sh.nums {
		if n > top && n < 64 {
			top = n
		}
	}
	base := top + 1 // undeclared
	if vfDeep != 0 {
		base = vfIntIn(1, top+2)
	} else if c := vfIntIn(0, 2); c < 2 {
		base = []int{sh.nums[0], top}[c] // first and last declared number (aliased modulo 2^16 when k > 0)
	}
	k := uint64(vfU32())
	if vfDeep != 0 {
		vfAssume(k <= 8190)
	} else {
		vfAssume(k <= 3) // quick tier: numbers up to 4*65536 (one tag size class above the declared range)
	}
	declared := false
	for _, n := range sh.nums {
		if n == base {
			declared = true
		}
	}
	if declared {
		vfAssume(k > 0)
	}
	num := uint64(base) + k<<16
	var f []byte
	switch vfMode {
	case 0:
		f = pbVarint(pbVarint(nil, num<<3|0), unkVal())
	case 1:
		f = pbVarint(nil, num<<3|1)
		f = append(f, vfBytes(8)...)
	case 2:
		f = pbVarint(nil, num<<3|2)
		pl := vfBytes(vfIntIn(0, 2))
		f = pbVarint(f, uint64(len(pl)))
		f = append(f, pl...)
	default:
		f = pbVarint(nil, num<<3|5)
		f = append(f, vfBytes(4)...)
	}
	return f, num
}

// H07-unknown: a well-formed undeclared field inserted at every top-level field boundary of a valid encoding does not
// change what Unmarshal decodes, and Scan enumerates exactly the original fields plus the inserted one, in order.
func vfH_c07_unknown() {
	sh := shapes[vfShape]
	v := sh.mk()
	b, err := Marshal(v)
	if err != nil {
		return
	}
	fs, ok := refFields(b)
	vfAssert(ok, "Marshal-output-is-well-formed")
	if !ok {
		return
	}
	unk, num := unknownField(sh)
	for at := 0; at <= len(fs); at++ {
		off := len(b)
		if at < len(fs) {
			off = fs[at].off
		}
		c := append(append(append([]byte(nil), b[:off]...), unk...), b[off:]...)
		p := sh.newp()
		err := Unmarshal(c, p)
		vfAssert(err == nil, "unknown-field-is-not-an-error")
		if err == nil {
			sh.check(v, p)
		}
		i := 0
		scanOK := true
		serr := Scan(c, func(f FieldNumber, t WireType, rv RawValue) (bool, error) {
			var wantNum uint64
			var wantWT, wantLen int
			switch {
			case i == at:
				wantNum, wantWT, wantLen = num, vfMode, len(unk)-tagLen(unk)
				if vfMode == 2 {
					wantLen--
				}
			case i < at:
				wantNum, wantWT, wantLen = fs[i].num, fs[i].wt, fs[i].plen
			case i-1 < len(fs):
				wantNum, wantWT, wantLen = fs[i-1].num, fs[i-1].wt, fs[i-1].plen
			default:
				scanOK = false
			}
			if uint64(f) != wantNum || int(t) != wantWT || len(rv) != wantLen {
				scanOK = false
			}
			i++
			return true, nil
		})
		vfAssert(serr == nil, "Scan-accepts")
		vfAssert(scanOK && i == len(fs)+1, "Scan-enumerates-exactly-the-fields")
	}
	vfCover("done")
}

func tagLen(f []byte) int {
	_, n, _ := refVarint(f)
	return n
}

// H07-free: every byte string of vfLen bytes into every shape's target: no panic (engine monitors), allocation
// bounded, and Unmarshal accepts only what the reference scanner finds well-formed at top level.
func vfH_c07_free() {
	sh := shapes[vfShape]
	b := vfBytes(vfLen)
	p := sh.newp()
	_ = Unmarshal([]byte{0xff}, sh.newp()) // the type's codec (a per-type, input-independent table) is built before the limit applies
	vfAllocLimit(64*len(b) + 1024)
	err := Unmarshal(b, p)
	if err == nil {
		vfCover("accepted")
		_, ok := refFields(b)
		vfAssert(ok, "accepted-input-is-well-formed")
	} else {
		vfCover("rejected")
	}
}

// H07-parselen: Parse on [1-byte tag][length or value varint of exactly vfLen2 bytes unless it overflows][vfLen more
// bytes]: totality at the top of the length range (>= 2^63, n+l overflow), result == reference.
func vfH_c07_parselen() {
	b := vfBytes(1 + vfLen2 + vfLen)
	vfAssume(b[0] < 0x80)
	for i := 1; i < vfLen2; i++ {
		vfAssume(b[i] >= 0x80)
	}
	f, t, v, rest, err := Parse(b)
	fs, ok := refFields(b)
	first := len(fs) > 0
	if !first && ok {
		first = false
	}
	// reference: the first field parses iff refFields got at least one field
	vfAssert((err == nil) == first, "Parse-accepts-iff-first-field-well-formed")
	if err == nil && first {
		vfCover("ok")
		vfAssert(uint64(f) == fs[0].num && int(t) == fs[0].wt, "field-and-type")
		vfAssert(len(v) == fs[0].plen, "value-length")
		vfAssert(len(rest) == len(b)-fs[0].end, "rest-length")
	} else {
		vfCover("err")
	}
	cnt := 0
	_ = Scan(b, func(_ FieldNumber, _ WireType, rv RawValue) (bool, error) { cnt++; return true, nil })
	vfAssert(cnt <= len(b), "scan-progress")
}
