package proto

import "math"

func f32frombits(x uint32) float32 { return math.Float32frombits(x) }
func f64frombits(x uint64) float64 { return math.Float64frombits(x) }
func f32bits(f float32) uint32     { return math.Float32bits(f) }
func f64bits(f float64) uint64     { return math.Float64bits(f) }
