package proto

// Message shapes of the proto catalogue (DESIGN.md 4.1). Values are symbolic inside each shape; vfWide selects which
// integer fields take a full-width value (the others take a byte-sized or sign-extended-byte value so that the number of
// varint size classes, and with it the number of paths, stays small).

var vfLen, vfLen2, vfMode, vfShape, vfWide int

func wide(i int) bool { return (vfWide>>uint(i))&1 == 1 }

func u64(i int) uint64 {
	if wide(i) {
		return vfU64()
	}
	return uint64(vfByte())
}
func i64(i int) int64 {
	if wide(i) {
		return int64(vfU64())
	}
	return int64(int8(vfByte()))
}
func u32(i int) uint32 {
	if wide(i) {
		return vfU32()
	}
	return uint32(vfByte())
}
func i32(i int) int32 {
	if wide(i) {
		return int32(vfU32())
	}
	return int32(int8(vfByte()))
}

type pScalars struct {
	A int
	B uint32
	C string
	D bool
	E int64 `protobuf:"zigzag64,7,opt,name=e"`
}

type pInts struct {
	A int32
	B int64
	C uint
	D uint64
	E int32 `protobuf:"zigzag32,5,opt,name=e"`
}

type pFixed struct {
	F float32
	G float64
	H uint64 `protobuf:"fixed64,3,opt,name=h"`
	I uint32 `protobuf:"fixed32,4,opt,name=i"`
	J uint32 `protobuf:"varint,20,opt,name=j"`
	K bool   `protobuf:"varint,3000,opt,name=k"`
}

type pBytes struct {
	A []byte
	B [4]byte
	C string
}

type pInner struct {
	X int32
	Y string
}

type pNested struct {
	A pInner
	B *pInner
	C *int64
	D *bool
	E int
}

type pRepeated struct {
	A []int32
	B []string
	C []pInner
	D []*pInner
}

type pRepScalar struct {
	A []bool
	B []uint64
	C []int64 `protobuf:"zigzag64,3,rep,name=c"`
	D []float32
}

type pMaps struct {
	A map[string]int32
	B map[int64]pInner
}

type pNode struct {
	Next *pNode
	ID   int32
	Name string
}

type shape struct {
	name   string
	hasMap bool
	mk     func() any       // a symbolic value of the shape
	newp   func() any       // pointer to a zero value
	check  func(v, p any)   // assert *p equals v up to nil-vs-empty
	nums   []int            // declared top-level field numbers
}

func mkInner(i int) pInner { return pInner{X: i32(i), Y: vfString(vfLen)} }

func checkInner(a, b pInner, id string) {
	vfAssert(a.X == b.X, id+".X")
	vfAssert(a.Y == b.Y, id+".Y")
}

var shapes = []shape{
	{name: "scalars", nums: []int{1, 2, 3, 4, 7},
		mk:   func() any { return pScalars{A: int(i64(0)), B: u32(1), C: vfString(vfLen), D: vfBool(), E: i64(2)} },
		newp: func() any { return new(pScalars) },
		check: func(v, p any) {
			a, b := v.(pScalars), *p.(*pScalars)
			vfAssert(a.A == b.A, "scalars.A")
			vfAssert(a.B == b.B, "scalars.B")
			vfAssert(a.C == b.C, "scalars.C")
			vfAssert(a.D == b.D, "scalars.D")
			vfAssert(a.E == b.E, "scalars.E")
		}},
	{name: "ints", nums: []int{1, 2, 3, 4, 5},
		mk:   func() any { return pInts{A: i32(0), B: i64(1), C: uint(u64(2)), D: u64(3), E: i32(4)} },
		newp: func() any { return new(pInts) },
		check: func(v, p any) {
			a, b := v.(pInts), *p.(*pInts)
			vfAssert(a.A == b.A, "ints.A")
			vfAssert(a.B == b.B, "ints.B")
			vfAssert(a.C == b.C, "ints.C")
			vfAssert(a.D == b.D, "ints.D")
			vfAssert(a.E == b.E, "ints.E")
		}},
	{name: "fixed", nums: []int{1, 2, 3, 4, 20, 3000},
		mk: func() any {
			return pFixed{F: f32frombits(vfU32()), G: f64frombits(vfU64()), H: vfU64(), I: vfU32(), J: u32(0), K: vfBool()}
		},
		newp: func() any { return new(pFixed) },
		check: func(v, p any) {
			a, b := v.(pFixed), *p.(*pFixed)
			vfAssert(f32bits(a.F) == f32bits(b.F), "fixed.F")
			vfAssert(f64bits(a.G) == f64bits(b.G), "fixed.G")
			vfAssert(a.H == b.H, "fixed.H")
			vfAssert(a.I == b.I, "fixed.I")
			vfAssert(a.J == b.J, "fixed.J")
			vfAssert(a.K == b.K, "fixed.K")
		}},
	{name: "bytes", nums: []int{1, 2, 3},
		mk: func() any {
			v := pBytes{A: vfBytes(vfLen), C: vfString(vfLen2)}
			if vfBool() {
				v.A = nil
			}
			for i := range v.B {
				v.B[i] = vfByte()
			}
			return v
		},
		newp: func() any { return new(pBytes) },
		check: func(v, p any) {
			a, b := v.(pBytes), *p.(*pBytes)
			vfAssert(string(a.A) == string(b.A), "bytes.A")
			vfAssert(a.B == b.B, "bytes.B")
			vfAssert(a.C == b.C, "bytes.C")
		}},
	{name: "nested", nums: []int{1, 2, 3, 4, 5},
		mk: func() any {
			v := pNested{A: mkInner(0), E: int(i64(1))}
			if vfBool() {
				x := mkInner(2)
				v.B = &x
			}
			if vfBool() {
				x := i64(3)
				v.C = &x
			}
			if vfBool() {
				x := vfBool()
				v.D = &x
			}
			return v
		},
		newp: func() any { return new(pNested) },
		check: func(v, p any) {
			a, b := v.(pNested), *p.(*pNested)
			checkInner(a.A, b.A, "nested.A")
			vfAssert(a.E == b.E, "nested.E")
			vfAssert((a.B == nil) == (b.B == nil), "nested.B-nil")
			if a.B != nil && b.B != nil {
				checkInner(*a.B, *b.B, "nested.B")
			}
			vfAssert((a.C == nil) == (b.C == nil), "nested.C-nil")
			if a.C != nil && b.C != nil {
				vfAssert(*a.C == *b.C, "nested.C")
			}
			vfAssert((a.D == nil) == (b.D == nil), "nested.D-nil")
			if a.D != nil && b.D != nil {
				vfAssert(*a.D == *b.D, "nested.D")
			}
		}},
	{name: "repeated", nums: []int{1, 2, 3, 4},
		mk: func() any {
			v := pRepeated{}
			for i := 0; i < vfLen2; i++ {
				v.A = append(v.A, i32(0))
				v.B = append(v.B, vfString(vfLen))
				v.C = append(v.C, mkInner(1))
				x := mkInner(2)
				v.D = append(v.D, &x)
			}
			return v
		},
		newp: func() any { return new(pRepeated) },
		check: func(v, p any) {
			a, b := v.(pRepeated), *p.(*pRepeated)
			vfAssert(len(a.A) == len(b.A), "repeated.A-len")
			vfAssert(len(a.B) == len(b.B), "repeated.B-len")
			vfAssert(len(a.C) == len(b.C), "repeated.C-len")
			vfAssert(len(a.D) == len(b.D), "repeated.D-len")
			for i := 0; i < len(a.A) && i < len(b.A); i++ {
				vfAssert(a.A[i] == b.A[i], "repeated.A")
			}
			for i := 0; i < len(a.B) && i < len(b.B); i++ {
				vfAssert(a.B[i] == b.B[i], "repeated.B")
			}
			for i := 0; i < len(a.C) && i < len(b.C); i++ {
				checkInner(a.C[i], b.C[i], "repeated.C")
			}
			for i := 0; i < len(a.D) && i < len(b.D); i++ {
				vfAssert(b.D[i] != nil, "repeated.D-nonnil")
				if b.D[i] != nil {
					checkInner(*a.D[i], *b.D[i], "repeated.D")
				}
			}
		}},
	{name: "repscalar", nums: []int{1, 2, 3, 4},
		mk: func() any {
			v := pRepScalar{}
			for i := 0; i < vfLen2; i++ {
				v.A = append(v.A, vfBool())
				v.B = append(v.B, u64(0))
				v.C = append(v.C, i64(1))
				v.D = append(v.D, f32frombits(vfU32()))
			}
			return v
		},
		newp: func() any { return new(pRepScalar) },
		check: func(v, p any) {
			a, b := v.(pRepScalar), *p.(*pRepScalar)
			vfAssert(len(a.A) == len(b.A), "repscalar.A-len")
			vfAssert(len(a.B) == len(b.B), "repscalar.B-len")
			vfAssert(len(a.C) == len(b.C), "repscalar.C-len")
			vfAssert(len(a.D) == len(b.D), "repscalar.D-len")
			for i := 0; i < len(a.A) && i < len(b.A); i++ {
				vfAssert(a.A[i] == b.A[i], "repscalar.A")
			}
			for i := 0; i < len(a.B) && i < len(b.B); i++ {
				vfAssert(a.B[i] == b.B[i], "repscalar.B")
			}
			for i := 0; i < len(a.C) && i < len(b.C); i++ {
				vfAssert(a.C[i] == b.C[i], "repscalar.C")
			}
			for i := 0; i < len(a.D) && i < len(b.D); i++ {
				vfAssert(f32bits(a.D[i]) == f32bits(b.D[i]), "repscalar.D")
			}
		}},
	{name: "maps", hasMap: true, nums: []int{1, 2},
		mk: func() any {
			v := pMaps{}
			if vfLen2 > 0 || vfBool() {
				v.A = map[string]int32{}
				v.B = map[int64]pInner{}
			}
			for i := 0; i < vfLen2; i++ {
				v.A[vfString(vfLen)] = i32(0)
				v.B[i64(1)] = mkInner(2)
			}
			return v
		},
		newp: func() any { return new(pMaps) },
		check: func(v, p any) {
			a, b := v.(pMaps), *p.(*pMaps)
			vfAssert(len(a.A) == len(b.A), "maps.A-len")
			vfAssert(len(a.B) == len(b.B), "maps.B-len")
			for k, x := range a.A {
				y, ok := b.A[k]
				vfAssert(ok, "maps.A-key")
				vfAssert(x == y, "maps.A-val")
			}
			for k, x := range a.B {
				y, ok := b.B[k]
				vfAssert(ok, "maps.B-key")
				checkInner(x, y, "maps.B-val")
			}
		}},
	{name: "node", nums: []int{1, 2, 3},
		mk: func() any {
			v := &pNode{ID: i32(0), Name: vfString(vfLen)}
			if vfBool() {
				v.Next = &pNode{ID: i32(1), Name: vfString(vfLen)}
				if vfBool() {
					v.Next.Next = &pNode{ID: i32(2)}
				}
			}
			return v
		},
		newp: func() any { return new(pNode) },
		check: func(v, p any) {
			a, b := v.(*pNode), p.(*pNode)
			for d := 0; d < 4; d++ {
				vfAssert((a == nil) == (b == nil), "node.nil")
				if a == nil || b == nil {
					return
				}
				vfAssert(a.ID == b.ID, "node.ID")
				vfAssert(a.Name == b.Name, "node.Name")
				a, b = a.Next, b.Next
			}
		}},
	{name: "mapptr", hasMap: true, nums: []int{1, 2, 3, 4},
		mk: func() any {
			v := pMapPtr{}
			if vfLen2 > 0 {
				v.A = map[int32][]byte{}
				v.B = map[string]*int64{}
				v.C = map[uint32]*pInner{}
			}
			for i := 0; i < vfLen2; i++ {
				v.A[int32(i+1)] = vfBytes(vfLen)
				x := i64(0)
				v.B[string(rune('a'+i))] = &x
				y := mkInner(1)
				v.C[uint32(i)] = &y
			}
			if vfBool() {
				v.P = &pPair{L: i32(2), R: vfString(vfLen)}
			}
			return v
		},
		newp: func() any { return new(pMapPtr) },
		check: func(v, p any) {
			a, b := v.(pMapPtr), *p.(*pMapPtr)
			vfAssert(len(a.A) == len(b.A), "mapptr.A-len")
			vfAssert(len(a.B) == len(b.B), "mapptr.B-len")
			vfAssert(len(a.C) == len(b.C), "mapptr.C-len")
			for k, x := range a.A {
				y, ok := b.A[k]
				vfAssert(ok, "mapptr.A-key")
				vfAssert(string(x) == string(y), "mapptr.A-val")
			}
			for k, x := range a.B {
				y, ok := b.B[k]
				vfAssert(ok && y != nil, "mapptr.B-key")
				if ok && y != nil {
					vfAssert(*x == *y, "mapptr.B-val")
				}
			}
			for k, x := range a.C {
				y, ok := b.C[k]
				vfAssert(ok && y != nil, "mapptr.C-key")
				if ok && y != nil {
					checkInner(*x, *y, "mapptr.C-val")
				}
			}
			vfAssert((a.P == nil) == (b.P == nil), "mapptr.P-nil")
			if a.P != nil && b.P != nil {
				vfAssert(a.P.L == b.P.L, "mapptr.P.L")
				vfAssert(a.P.R == b.P.R, "mapptr.P.R")
			}
			// distinct entries never share storage
			if vfLen2 >= 2 {
				if x, y := b.A[1], b.A[2]; len(x) > 0 && len(y) > 0 {
					vfAssert(!vfSameObj(x, y), "mapptr.A-values-do-not-alias")
				}
				if x, y := b.B["a"], b.B["b"]; x != nil && y != nil {
					vfAssert(x != y, "mapptr.B-values-do-not-alias")
				}
			}
		}},
	{name: "arrays", nums: []int{1, 2, 3, 4, 5, 6, 7},
		mk: func() any {
			v := pArrays{}
			// at most two non-zero bytes per array, at symbolic positions: the zero test reads the array in 8/4/2/1 byte
			// pieces, so the interesting values are those whose only non-zero bytes sit in one particular piece
			set := func(b []byte) {
				i := vfIntIn(0, len(b)-1)
				b[i] = vfByte()
				b[len(b)-1] = vfByte()
			}
			switch vfIntIn(0, 5) { // one array per path carries the non-zero bytes, the others are zero (and omitted)
			case 0:
				set(v.A[:])
			case 1:
				set(v.B[:])
			case 2:
				set(v.C[:])
			case 3:
				set(v.D[:])
			case 4:
				set(v.E[:])
			default:
				set(v.F[:])
			}
			v.G = int32(int8(vfByte()))
			return v
		},
		newp: func() any { return new(pArrays) },
		check: func(v, p any) {
			a, b := v.(pArrays), *p.(*pArrays)
			vfAssert(a.A == b.A, "arrays.A")
			vfAssert(a.B == b.B, "arrays.B")
			vfAssert(a.C == b.C, "arrays.C")
			vfAssert(a.D == b.D, "arrays.D")
			vfAssert(a.E == b.E, "arrays.E")
			vfAssert(a.F == b.F, "arrays.F")
			vfAssert(a.G == b.G, "arrays.G")
		}},
	{name: "custom", nums: []int{1, 2, 3, 4, 5},
		mk: func() any {
			v := pCustom{A: i32(0), C: pBlob{vfBytes(vfLen)}, D: i32(1), E: vfString(vfLen)}
			for i := 0; i < vfLen2; i++ {
				v.R = append(v.R, pBlob{vfBytes(vfLen)})
			}
			return v
		},
		newp: func() any { return new(pCustom) },
		check: func(v, p any) {
			a, b := v.(pCustom), *p.(*pCustom)
			vfAssert(a.A == b.A, "custom.A")
			vfAssert(string(a.C.B) == string(b.C.B), "custom.C")
			vfAssert(a.D == b.D, "custom.D")
			vfAssert(len(a.R) == len(b.R), "custom.R-len")
			if len(a.R) == len(b.R) {
				for i := range a.R {
					vfAssert(string(a.R[i].B) == string(b.R[i].B), "custom.R-elem")
				}
			}
			vfAssert(a.E == b.E, "custom.E")
		}},
}

// pBlob is a gogo-style custom type (Size/MarshalTo/Unmarshal on the pointer receiver) of variable size.
type pBlob struct{ B []byte }

func (c *pBlob) Size() int                       { return len(c.B) }
func (c *pBlob) MarshalTo(b []byte) (int, error) { return copy(b, c.B), nil }
func (c *pBlob) Unmarshal(b []byte) error        { c.B = append([]byte(nil), b...); return nil }

type pCustom struct {
	A int32
	C pBlob
	D int32
	R []pBlob
	E string
}

type pPair struct {
	L int32
	R string
}

type pMapPtr struct {
	A map[int32][]byte
	B map[string]*int64
	C map[uint32]*pInner
	P *pPair
}
type pArrays struct {
	A [3]byte
	B [6]byte
	C [7]byte
	D [13]byte
	E [14]byte
	F [15]byte
	G int32
}
