package thrift

// H09-thrift: first use of several struct types (one with a field-id span over 64, one with collections, one union) in
// sequence under the engine's adversarial environment model (stale encoder/decoder cache snapshots at every atomic
// load, everything reachable from a published cache frozen - a write to it would race with another goroutine's read):
// every call returns its solo result, for a complete message and for one lacking a required field.
func vfH_c09_thrift() {
	vfConcurrency(1)
	p := proto()
	var a any = tSparse{A: 5, B: "b", C: true, E: -9, F: true, G: 3, H: 2}
	var b any = tScalars{A: true, B: -1, C: 300, D: 70000, E: -5, G: "g", H: []byte{1}, I: false}
	ba, ea := Marshal(p, a)
	vfAssert(ea == nil, "first-type-marshal")
	bb, eb := Marshal(p, b)
	vfAssert(eb == nil, "second-type-marshal")
	ba2, ea2 := Marshal(p, a)
	vfAssert(ea2 == nil && string(ba2) == string(ba), "first-type-again-same-bytes")
	ga := tshapes[3].newp()
	vfAssert(Unmarshal(p, ba, ga) == nil, "unmarshal-first")
	tshapes[3].check(a, ga)
	gb := tshapes[0].newp()
	vfAssert(Unmarshal(p, bb, gb) == nil, "unmarshal-second")
	tshapes[0].check(b, gb)
	// the same type again, twice: a message without the required field 130, then a complete one
	d := tshapes[3].full(a)
	var fs []tfld
	for _, f := range d.fs {
		if f.id != 130 {
			fs = append(fs, f)
		}
	}
	err := Unmarshal(p, encodeDOM(p, dStruct(fs...), false), tshapes[3].newp())
	vfAssert(errChainHas(err, func(e error) bool { _, ok := e.(*MissingField); return ok }), "missing-required-field-still-reported")
	ga2 := tshapes[3].newp()
	vfAssert(Unmarshal(p, ba, ga2) == nil, "unmarshal-first-again")
	tshapes[3].check(a, ga2)
	var c any = tColl{L: []int16{1, 2}, M: map[string]int64{"k": 7}, MS: map[int8]tInner{1: {X: 4}}}
	bc, ec := Marshal(p, c)
	vfAssert(ec == nil, "third-type-marshal")
	gc := tshapes[2].newp()
	vfAssert(Unmarshal(p, bc, gc) == nil, "unmarshal-third")
	tshapes[2].check(c, gc)
	vfCover("done")
}
