package thrift

import (
	"bytes"
	"io"
)

func errChainHas(err error, pred func(error) bool) bool {
	for i := 0; i < 12 && err != nil; i++ {
		if pred(err) {
			return true
		}
		u, ok := err.(interface{ Unwrap() error })
		if !ok {
			return false
		}
		err = u.Unwrap()
	}
	return false
}

func isUnexpectedEOF(err error) bool {
	return errChainHas(err, func(e error) bool { return e == io.ErrUnexpectedEOF })
}

// H08-sprefix: every proper prefix of a valid encoding: an error of the unexpected-EOF class (plain io.EOF only for
// the empty input), never a panic, allocation bounded.
func vfH_c08_sprefix() {
	sh := tshapes[vfShape]
	p := proto()
	v := sh.mk()
	b, err := Marshal(p, v)
	if err != nil {
		return
	}
	_ = Unmarshal(p, []byte{0xff, 0xff}, sh.newp()) // the per-type decoder (a table over the id range) is built before the limit applies
	for cut := 0; cut < len(b); cut++ {
		got := sh.newp()
		vfAllocLimit(64*len(b) + 8192)
		err := Unmarshal(p, b[:cut], got)
		vfAssert(err != nil, "truncated-input-is-an-error")
		if err != nil {
			if cut == 0 {
				vfAssert(err == io.EOF || isUnexpectedEOF(err), "empty-input-is-EOF")
			} else {
				vfAssert(err != io.EOF, "no-plain-EOF-after-bytes-were-consumed")
				vfAssert(isUnexpectedEOF(err) || errChainHas(err, func(e error) bool { _, ok := e.(*MissingField); return ok }), "truncation-is-unexpected-EOF-class")
			}
		}
	}
	// trailing bytes are reported
	got := sh.newp()
	err = Unmarshal(p, append(append([]byte(nil), b...), vfByte()), got)
	vfAssert(err != nil, "trailing-bytes-reported")
	vfCover("done")
}

// H08-sfree: every byte string of vfLen bytes into the shape's target: no panic, allocation bounded.
func vfH_c08_sfree() {
	sh := tshapes[vfShape]
	p := proto()
	b := vfBytes(vfLen)
	_ = Unmarshal(p, []byte{0xff, 0xff}, sh.newp()) // the per-type decoder is built before the limit applies
	got := sh.newp()
	vfAllocLimit(64*len(b) + 8192)
	vfAllocExplore(len(b) + 2)
	err := Unmarshal(p, b, got)
	if err == nil {
		vfCover("accepted")
	} else {
		vfCover("rejected")
		if len(b) > 0 {
			vfAssert(err != io.EOF, "no-plain-EOF-for-non-empty-input")
		}
	}
}

// unknownDOM: a value of every thrift type, nested containers included (vfMode)
func unknownDOM() tval {
	dbl := tval{t: DOUBLE, f: vfU64()}
	switch vfMode {
	case 0:
		return dBool(vfBool())
	case 1:
		return dInt(I8, i8v())
	case 2:
		return dInt(I16, int64(int16(vfU16())))
	case 3:
		return dInt(I32, int64(int32(vfU32())))
	case 4:
		return dInt(I64, int64(vfU64()))
	case 5:
		return dbl
	case 6:
		return dBin(vfBytes(2))
	case 7:
		return dList(DOUBLE, []tval{dbl, dbl})
	case 8:
		return tval{t: SET, et: I64, es: []tval{dInt(I64, int64(vfU64()))}}
	case 9:
		return tval{t: MAP, kt: BINARY, et: STRUCT, ks: []tval{dBin(vfBytes(1))}, es: []tval{dStruct(tfld{1, dbl}, tfld{2, dBool(vfBool())})}}
	case 10:
		return dStruct(tfld{1, dbl}, tfld{3, dList(BOOL, []tval{dBool(vfBool())})}, tfld{40, dStruct()})
	case 11:
		return tval{t: MAP, kt: I8, et: I8} // the empty map (one byte in the compact protocol)
	}
	return dList(STRUCT, nil)
}

// H08-sunknown: fields with ids the target does not declare, of every thrift type and nesting, placed before, between
// and after the declared fields, do not change the decoded value.
func vfH_c08_sunknown() {
	sh := tshapes[vfShape]
	p := proto()
	v := sh.mk()
	d := sh.full(v) // every declared field explicit (conformant; keeps the number of paths independent of zero values)
	if vfFlags&2 != 0 {
		d = sh.dom(v)
	}
	u := unknownDOM()
	// candidate undeclared ids: below the smallest declared id is impossible (ids start at 1), so: in a gap, just above
	// the largest, and far above
	var cands []int16
	for id := int16(1); id < 200 && len(cands) < 2; id++ {
		decl := false
		for _, x := range sh.ids {
			if x == id {
				decl = true
			}
		}
		if !decl {
			cands = append(cands, id)
		}
	}
	cands = append(cands, sh.ids[len(sh.ids)-1]+1, 32767)
	if vfFlags&4 == 0 {
		cands = []int16{cands[0], 32767} // quick tier: the first gap and the largest id
	}
	uid := cands[vfIntIn(0, len(cands)-1)]
	var fs []tfld
	done := false
	for _, f := range d.fs {
		if !done && f.id > uid {
			fs = append(fs, tfld{uid, u})
			done = true
		}
		fs = append(fs, f)
	}
	if !done {
		fs = append(fs, tfld{uid, u})
	}
	b := encodeDOM(p, dStruct(fs...), vfFlags&1 != 0)
	got := sh.newp()
	err := Unmarshal(p, b, got)
	vfAssert(err == nil, "unknown-field-is-not-an-error")
	if err == nil {
		sh.check(v, got)
	}
	vfCover("done")
}

// H08-srequired: a message without a required field is reported as *MissingField; with strict decoding a declared
// field carrying another wire type is reported as *TypeMismatch.
func vfH_c08_srequired() {
	sh := tshapes[vfShape]
	p := proto()
	v := sh.mk()
	d := sh.full(v)
	reqID := map[string]int16{"scalars": 4, "opt": 4, "sparse": 130}[sh.name]
	if reqID == 0 {
		return
	}
	var fs []tfld
	for _, f := range d.fs {
		if f.id != reqID {
			fs = append(fs, f)
		}
	}
	got := sh.newp()
	err := Unmarshal(p, encodeDOM(p, dStruct(fs...), false), got)
	vfAssert(err != nil, "missing-required-field-is-an-error")
	vfAssert(errChainHas(err, func(e error) bool { _, ok := e.(*MissingField); return ok }), "missing-required-field-is-MissingField")

	// strict: the required field with a wrong type (BINARY where an integer is declared)
	fs = nil
	for _, f := range d.fs {
		if f.id == reqID {
			f.v = dBin(vfBytes(1))
		}
		fs = append(fs, f)
	}
	b := encodeDOM(p, dStruct(fs...), false)
	dec := NewDecoder(p.NewReader(bytes.NewReader(b)))
	dec.SetStrict(true)
	err = dec.Decode(sh.newp())
	vfAssert(err != nil, "strict-type-mismatch-is-an-error")
	vfAssert(errChainHas(err, func(e error) bool { _, ok := e.(*TypeMismatch); return ok }), "strict-type-mismatch-is-TypeMismatch")
	vfCover("done")
}
