package thrift

import (
	"bytes"
	"io"
)

var vfLen, vfLen2, vfMode, vfProto, vfShape, vfWide, vfFlags int

// vfProto: 0 = binary strict, 1 = binary non-strict, 2 = compact
func proto() Protocol {
	switch vfProto {
	case 0:
		return &BinaryProtocol{}
	case 1:
		return &BinaryProtocol{NonStrict: true}
	}
	return &CompactProtocol{}
}

type vfSink struct{ b []byte }

func (s *vfSink) Write(p []byte) (int, error) { s.b = append(s.b, p...); return len(p), nil }

// plain io.Reader handing out at most `chunk` bytes per call (0 = everything available)
type vfSrc struct {
	b     []byte
	i     int
	chunk int
}

func (s *vfSrc) Read(p []byte) (int, error) {
	if s.i >= len(s.b) {
		return 0, io.EOF
	}
	n := len(p)
	if s.chunk > 0 && n > s.chunk {
		n = s.chunk
	}
	n = copy(p[:n], s.b[s.i:])
	s.i += n
	return n, nil
}

// the same with ReadByte (io.ByteReader path of the readers)
type vfByteSrc struct{ vfSrc }

func (s *vfByteSrc) ReadByte() (byte, error) {
	if s.i >= len(s.b) {
		return 0, io.EOF
	}
	c := s.b[s.i]
	s.i++
	return c, nil
}

// vfMode selects the reader kind: 0 plain, 1 plain 1-byte chunks, 2 io.ByteReader, 3 real *bytes.Reader
func source(b []byte) (io.Reader, func() int) {
	switch vfMode {
	case 0:
		s := &vfSrc{b: b}
		return s, func() int { return s.i }
	case 1:
		s := &vfSrc{b: b, chunk: 1}
		return s, func() int { return s.i }
	case 2:
		s := &vfByteSrc{vfSrc{b: b}}
		return s, func() int { return s.i }
	}
	r := bytes.NewReader(b)
	return r, func() int { return len(b) - r.Len() }
}

func isEOFClass(err error) bool { return err == io.EOF || err == io.ErrUnexpectedEOF }
