package thrift

import "bytes"

// H04-struct: Unmarshal(Marshal(v)) == v for the three protocols (vfProto), and the compact and binary protocols
// carry the same logical content (the bytes of one protocol, parsed generically and re-written with the other
// protocol's Writer, decode to the same value).
func vfH_c04_struct() {
	sh := tshapes[vfShape]
	p := proto()
	v := sh.mk()
	b, err := Marshal(p, v)
	vfAssert(err == nil, "marshal-ok")
	if err != nil {
		return
	}
	got := sh.newp()
	err = Unmarshal(p, b, got)
	vfAssert(err == nil, "unmarshal-of-marshal-ok")
	if err == nil {
		sh.check(v, got)
	}
	// cross-protocol: the other protocol's encoding of v decodes to the same value
	q := otherProto()
	b2, err2 := Marshal(q, v)
	vfAssert(err2 == nil, "marshal-ok-other-protocol")
	if err2 == nil {
		got2 := sh.newp()
		err = Unmarshal(q, b2, got2)
		vfAssert(err == nil, "unmarshal-ok-other-protocol")
		if err == nil {
			sh.check(v, got2)
		}
	}
	vfCover("done")
}

// H04-reuse: an Encoder / Decoder that is Reset onto a writer / reader of ANOTHER protocol (and whose strict flag was
// set before) behaves like a fresh one: same bytes as Marshal, same value as Unmarshal.
func vfH_c04_reuse() {
	sh := tshapes[vfShape]
	p, q := proto(), otherProto()
	v := sh.mk()
	want, err := Marshal(q, v)
	if err != nil {
		return
	}
	// encoder: first use with protocol p, then Reset to protocol q
	s1, s2 := &vfSink{}, &vfSink{}
	enc := NewEncoder(p.NewWriter(s1))
	vfAssert(enc.Encode(v) == nil, "first-encode-ok")
	enc.Reset(q.NewWriter(s2))
	vfAssert(enc.Encode(v) == nil, "encode-after-Reset-ok")
	vfAssert(string(s2.b) == string(want), "Encoder-after-Reset==fresh-Encoder")
	first, _ := Marshal(p, v)
	vfAssert(string(s1.b) == string(first), "first-encode==Marshal")

	// decoder: first use with protocol p (strict), then Reset to protocol q
	dec := NewDecoder(p.NewReader(bytes.NewReader(first)))
	if vfMode&1 != 0 {
		dec.SetStrict(true)
	}
	g1 := sh.newp()
	vfAssert(dec.Decode(g1) == nil, "first-decode-ok")
	sh.check(v, g1)
	dec.Reset(q.NewReader(bytes.NewReader(want)))
	g2 := sh.newp()
	err = dec.Decode(g2)
	vfAssert(err == nil, "decode-after-Reset-ok")
	if err == nil {
		sh.check(v, g2)
	}
	// and back
	dec.Reset(p.NewReader(bytes.NewReader(first)))
	g3 := sh.newp()
	err = dec.Decode(g3)
	vfAssert(err == nil, "decode-after-second-Reset-ok")
	if err == nil {
		sh.check(v, g3)
	}
	vfCover("done")
}

// H13-struct: the bytes Marshal writes, parsed generically (readDOM over the package's Reader, itself checked against
// the specifications at the protocol level), carry exactly the logical content of v: every non-zero / required field
// once, with the thrift type of its Go type, nothing else. And every conformant alternative encoding of the same
// content written with the Writer - all fields explicit (vfMode bit 0), compact field headers in the long form
// (vfMode bit 1) - is accepted by Unmarshal with the same result.
func vfH_c13_struct() {
	sh := tshapes[vfShape]
	p := proto()
	v := sh.mk()
	b, err := Marshal(p, v)
	vfAssert(err == nil, "marshal-ok")
	if err != nil {
		return
	}
	d, ok := decodeDOM(p, b, STRUCT)
	vfAssert(ok, "Marshal-output-parses-as-a-struct-and-nothing-follows")
	if ok {
		eqDOM(sh.dom(v), d, "marshal")
	}
	var alt tval
	if vfMode&1 != 0 {
		alt = sh.full(v)
	} else {
		alt = sh.dom(v)
	}
	enc := encodeDOM(p, alt, vfMode&2 != 0)
	got := sh.newp()
	err = Unmarshal(p, enc, got)
	vfAssert(err == nil, "conformant-encoding-accepted")
	if err == nil {
		sh.check(v, got)
	}
	vfCover("done")
}
