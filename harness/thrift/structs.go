package thrift

import (
	"io"
	"math"
)

// ---- struct-level catalogue (reflect.Value walkers of encode.go / decode.go)

type tInner struct {
	X int32  `thrift:"1"`
	Y string `thrift:"2"`
}

type tScalars struct {
	A bool    `thrift:"1"`
	B int8    `thrift:"2"`
	C int16   `thrift:"3"`
	D int32   `thrift:"4,required"`
	E int64   `thrift:"5"`
	F float64 `thrift:"7"`
	G string  `thrift:"20"`
	H []byte  `thrift:"21"`
	I bool    `thrift:"22"`
}

type tEnum int8

type tOpt struct {
	A *int32  `thrift:"1,optional"`
	B *tInner `thrift:"2"`
	C tInner  `thrift:"3"`
	D int32   `thrift:"4,required"`
	E tEnum   `thrift:"5,enum"`
	F *bool   `thrift:"6,optional"`
}

type tColl struct {
	L  []int16          `thrift:"1"`
	S  map[int32]struct{} `thrift:"2"`
	M  map[string]int64 `thrift:"3"`
	LB [][]byte         `thrift:"4"`
	LS []tInner         `thrift:"5"`
	LO []bool           `thrift:"6"`
	MS map[int8]tInner  `thrift:"7"`
}

// field ids out of declaration order and far apart
type tSparse struct {
	A int32  `thrift:"100"`
	B string `thrift:"1"`
	C bool   `thrift:"16"`
	D bool   `thrift:"17"`
	E int64  `thrift:"3000"`
	F bool   `thrift:"2,required"`
	G int8   `thrift:"130,required"`
	H int16  `thrift:"101"`
}

func i8v() int64 { return int64(int8(vfByte())) }

func wideI(i int) int64 {
	if (vfWide>>uint(i))&1 == 1 {
		return int64(vfU64())
	}
	return i8v()
}

// ---- thrift DOM: the logical content of a value, independent of protocol and of field order
type tval struct {
	t  Type // BOOL for booleans of either value
	b  bool
	i  int64
	f  uint64
	s  []byte
	kt Type   // MAP key type
	et Type   // LIST/SET element type, MAP value type
	ks []tval // MAP keys
	es []tval // LIST/SET elements, MAP values
	fs []tfld // STRUCT fields
}

type tfld struct {
	id int16
	v  tval
}

func dBool(b bool) tval            { return tval{t: BOOL, b: b} }
func dInt(t Type, i int64) tval    { return tval{t: t, i: i} }
func dBin(s []byte) tval           { return tval{t: BINARY, s: s} }
func dStruct(fs ...tfld) tval      { return tval{t: STRUCT, fs: fs} }
func dList(et Type, es []tval) tval { return tval{t: LIST, et: et, es: es} }

// writeDOM writes v with the package's Writer the way the specifications prescribe. long: compact field headers in
// the long form (type byte + zig-zag id) even where the delta short form exists.
func writeDOM(w Writer, v tval, long bool) {
	feat := w.Protocol().Features()
	switch v.t {
	case BOOL, TRUE:
		w.WriteBool(v.b)
	case I8:
		w.WriteInt8(int8(v.i))
	case I16:
		w.WriteInt16(int16(v.i))
	case I32:
		w.WriteInt32(int32(v.i))
	case I64:
		w.WriteInt64(v.i)
	case DOUBLE:
		w.WriteFloat64(math.Float64frombits(v.f))
	case BINARY:
		w.WriteBytes(v.s)
	case LIST:
		w.WriteList(List{Size: int32(len(v.es)), Type: v.et})
		for _, e := range v.es {
			writeDOM(w, e, long)
		}
	case SET:
		w.WriteSet(Set{Size: int32(len(v.es)), Type: v.et})
		for _, e := range v.es {
			writeDOM(w, e, long)
		}
	case MAP:
		w.WriteMap(Map{Size: int32(len(v.es)), Key: v.kt, Value: v.et})
		for i := range v.es {
			writeDOM(w, v.ks[i], long)
			writeDOM(w, v.es[i], long)
		}
	case STRUCT:
		last := int16(0)
		for _, f := range v.fs {
			fld := Field{ID: f.id, Type: f.v.t}
			if feat&UseDeltaEncoding != 0 && !long {
				if d := f.id - last; d > 0 && d <= 15 {
					fld.ID, fld.Delta = d, true
				}
			}
			coalesce := feat&CoalesceBoolFields != 0 && f.v.t == BOOL
			if coalesce && f.v.b {
				fld.Type = TRUE
			}
			if feat&UseDeltaEncoding != 0 && !fld.Delta {
				// long form of the compact field header: the type byte, then the zig-zag varint of the id. (The package's
				// WriteField picks the short form for every ID <= 15 and treats it as a delta, so the long form of a small
				// id is written by hand.)
				w.Writer().Write([]byte{byte(fld.Type)})
				w.WriteInt16(fld.ID)
			} else {
				w.WriteField(fld)
			}
			if !coalesce {
				writeDOM(w, f.v, long)
			}
			last = f.id
		}
		w.WriteField(Field{Type: STOP})
	}
}

func encodeDOM(p Protocol, v tval, long bool) []byte {
	s := &vfSink{}
	writeDOM(p.NewWriter(s), v, long)
	return s.b
}

// readDOM parses a value of type t with the package's Reader (checked against the specifications by the protocol
// level units). Field order is kept as found.
func readDOM(r Reader, t Type, depth int) (tval, bool) {
	v := tval{t: t}
	var err error
	switch t {
	case BOOL, TRUE:
		v.t = BOOL
		v.b, err = r.ReadBool()
	case I8:
		var x int8
		x, err = r.ReadInt8()
		v.i = int64(x)
	case I16:
		var x int16
		x, err = r.ReadInt16()
		v.i = int64(x)
	case I32:
		var x int32
		x, err = r.ReadInt32()
		v.i = int64(x)
	case I64:
		v.i, err = r.ReadInt64()
	case DOUBLE:
		var x float64
		x, err = r.ReadFloat64()
		v.f = math.Float64bits(x)
	case BINARY:
		v.s, err = r.ReadBytes()
	case LIST, SET:
		var n int32
		if t == LIST {
			var l List
			l, err = r.ReadList()
			n, v.et = l.Size, l.Type
		} else {
			var l Set
			l, err = r.ReadSet()
			n, v.et = l.Size, l.Type
		}
		if err != nil || n < 0 || n > 8 || depth > 4 {
			return v, false
		}
		for i := int32(0); i < n; i++ {
			e, ok := readDOM(r, v.et, depth+1)
			if !ok {
				return v, false
			}
			v.es = append(v.es, e)
		}
	case MAP:
		var m Map
		m, err = r.ReadMap()
		if err != nil || m.Size < 0 || m.Size > 8 || depth > 4 {
			return v, false
		}
		v.kt, v.et = m.Key, m.Value
		for i := int32(0); i < m.Size; i++ {
			k, ok := readDOM(r, m.Key, depth+1)
			if !ok {
				return v, false
			}
			e, ok := readDOM(r, m.Value, depth+1)
			if !ok {
				return v, false
			}
			v.ks = append(v.ks, k)
			v.es = append(v.es, e)
		}
	case STRUCT:
		if depth > 4 {
			return v, false
		}
		last := int16(0)
		for n := 0; n < 64; n++ {
			f, e := r.ReadField()
			if e != nil {
				return v, false
			}
			if f.Type == STOP {
				return v, true
			}
			if f.Delta {
				f.ID += last
			}
			last = f.ID
			var fv tval
			if r.Protocol().Features()&CoalesceBoolFields != 0 && (f.Type == TRUE || f.Type == FALSE) {
				fv = dBool(f.Type == TRUE)
			} else {
				var ok bool
				fv, ok = readDOM(r, f.Type, depth+1)
				if !ok {
					return v, false
				}
			}
			v.fs = append(v.fs, tfld{f.ID, fv})
		}
		return v, false
	default:
		return v, false
	}
	return v, err == nil
}

func decodeDOM(p Protocol, b []byte, t Type) (tval, bool) {
	src := &vfSrc{b: b}
	v, ok := readDOM(p.NewReader(src), t, 0)
	return v, ok && src.i == len(b)
}

// eqDOM asserts that two DOMs have the same logical content: struct fields are matched by id (each id once), map
// entries and set elements of at most two entries in either order.
func eqDOM(a, b tval, id string) {
	vfAssert(a.t == b.t, id+"/type")
	if a.t != b.t {
		return
	}
	switch a.t {
	case BOOL:
		vfAssert(a.b == b.b, id+"/bool")
	case I8, I16, I32, I64:
		vfAssert(a.i == b.i, id+"/int")
	case DOUBLE:
		vfAssert(a.f == b.f, id+"/double-bits")
	case BINARY:
		vfAssert(string(a.s) == string(b.s), id+"/binary")
	case LIST:
		vfAssert(len(a.es) == len(b.es), id+"/list-size")
		if len(a.es) > 0 {
			vfAssert(a.et == b.et || (a.et == BOOL || a.et == TRUE) && (b.et == BOOL || b.et == TRUE), id+"/list-elem-type")
		}
		for i := 0; i < len(a.es) && i < len(b.es); i++ {
			eqDOM(a.es[i], b.es[i], id+"/elem")
		}
	case SET, MAP:
		vfAssert(len(a.es) == len(b.es), id+"/size")
		if len(a.es) != len(b.es) {
			return
		}
		if len(a.es) > 0 {
			vfAssert(a.et == b.et, id+"/elem-type")
			if a.t == MAP {
				vfAssert(a.kt == b.kt, id+"/key-type")
			}
		}
		key := func(v tval, i int) tval {
			if v.t == MAP {
				return v.ks[i]
			}
			return v.es[i]
		}
		same := func(x, y tval) bool {
			if x.t == BINARY {
				return string(x.s) == string(y.s)
			}
			return x.i == y.i
		}
		switch len(a.es) {
		case 1:
			eqDOM(key(a, 0), key(b, 0), id+"/key")
			if a.t == MAP {
				eqDOM(a.es[0], b.es[0], id+"/value")
			}
		case 2:
			if same(key(a, 0), key(b, 0)) {
				eqDOM(key(a, 1), key(b, 1), id+"/key")
				if a.t == MAP {
					eqDOM(a.es[0], b.es[0], id+"/value")
					eqDOM(a.es[1], b.es[1], id+"/value")
				}
			} else {
				eqDOM(key(a, 0), key(b, 1), id+"/key")
				eqDOM(key(a, 1), key(b, 0), id+"/key")
				if a.t == MAP {
					eqDOM(a.es[0], b.es[1], id+"/value")
					eqDOM(a.es[1], b.es[0], id+"/value")
				}
			}
		}
	case STRUCT:
		vfAssert(len(a.fs) == len(b.fs), id+"/field-count")
		for _, fa := range a.fs {
			n := 0
			for _, fb := range b.fs {
				if fb.id == fa.id {
					n++
					eqDOM(fa.v, fb.v, id+"/field")
				}
			}
			vfAssert(n == 1, id+"/field-present-once")
		}
	}
}

// ---- shapes
type tshape struct {
	name  string
	mk    func() any
	newp  func() any
	check func(v, p any)      // *p equals v up to nil-vs-empty
	dom   func(v any) tval    // what Marshal must write: zero-valued non-required fields omitted
	full  func(v any) tval    // every field written explicitly (also conformant)
	ids   []int16             // declared ids
}

func innerDOM(x tInner, full bool) tval {
	var fs []tfld
	if x.X != 0 || full {
		fs = append(fs, tfld{1, dInt(I32, int64(x.X))})
	}
	if x.Y != "" || full {
		fs = append(fs, tfld{2, dBin([]byte(x.Y))})
	}
	return dStruct(fs...)
}

func scalarsDOM(x tScalars, full bool) tval {
	var fs []tfld
	if x.A || full {
		fs = append(fs, tfld{1, dBool(x.A)})
	}
	if x.B != 0 || full {
		fs = append(fs, tfld{2, dInt(I8, int64(x.B))})
	}
	if x.C != 0 || full {
		fs = append(fs, tfld{3, dInt(I16, int64(x.C))})
	}
	fs = append(fs, tfld{4, dInt(I32, int64(x.D))})
	if x.E != 0 || full {
		fs = append(fs, tfld{5, dInt(I64, x.E)})
	}
	if math.Float64bits(x.F) != 0 || full {
		fs = append(fs, tfld{7, tval{t: DOUBLE, f: math.Float64bits(x.F)}})
	}
	if x.G != "" || full {
		fs = append(fs, tfld{20, dBin([]byte(x.G))})
	}
	if len(x.H) != 0 || full {
		fs = append(fs, tfld{21, dBin(x.H)})
	}
	if x.I || full {
		fs = append(fs, tfld{22, dBool(x.I)})
	}
	return dStruct(fs...)
}

func optDOM(x tOpt, full bool) tval {
	var fs []tfld
	if x.A != nil {
		fs = append(fs, tfld{1, dInt(I32, int64(*x.A))})
	}
	if x.B != nil {
		fs = append(fs, tfld{2, innerDOM(*x.B, full)})
	}
	if x.C != (tInner{}) || full {
		fs = append(fs, tfld{3, innerDOM(x.C, full)})
	}
	fs = append(fs, tfld{4, dInt(I32, int64(x.D))})
	if x.E != 0 || full {
		fs = append(fs, tfld{5, dInt(I32, int64(x.E))})
	}
	if x.F != nil {
		fs = append(fs, tfld{6, dBool(*x.F)})
	}
	return dStruct(fs...)
}

func collDOM(x tColl, full bool) tval {
	var fs []tfld
	if len(x.L) != 0 || full {
		var es []tval
		for _, e := range x.L {
			es = append(es, dInt(I16, int64(e)))
		}
		fs = append(fs, tfld{1, dList(I16, es)})
	}
	if len(x.S) != 0 || full {
		v := tval{t: SET, et: I32}
		for k := range x.S {
			v.es = append(v.es, dInt(I32, int64(k)))
		}
		fs = append(fs, tfld{2, v})
	}
	if len(x.M) != 0 || full {
		v := tval{t: MAP, kt: BINARY, et: I64}
		for k, e := range x.M {
			v.ks = append(v.ks, dBin([]byte(k)))
			v.es = append(v.es, dInt(I64, e))
		}
		fs = append(fs, tfld{3, v})
	}
	if len(x.LB) != 0 || full {
		var es []tval
		for _, e := range x.LB {
			es = append(es, dBin(e))
		}
		fs = append(fs, tfld{4, dList(BINARY, es)})
	}
	if len(x.LS) != 0 || full {
		var es []tval
		for _, e := range x.LS {
			es = append(es, innerDOM(e, full))
		}
		fs = append(fs, tfld{5, dList(STRUCT, es)})
	}
	if len(x.LO) != 0 || full {
		var es []tval
		for _, e := range x.LO {
			es = append(es, dBool(e))
		}
		fs = append(fs, tfld{6, dList(BOOL, es)})
	}
	if len(x.MS) != 0 || full {
		v := tval{t: MAP, kt: I8, et: STRUCT}
		for k, e := range x.MS {
			v.ks = append(v.ks, dInt(I8, int64(k)))
			v.es = append(v.es, innerDOM(e, full))
		}
		fs = append(fs, tfld{7, v})
	}
	return dStruct(fs...)
}

func sparseDOM(x tSparse, full bool) tval {
	var fs []tfld
	if x.B != "" || full {
		fs = append(fs, tfld{1, dBin([]byte(x.B))})
	}
	fs = append(fs, tfld{2, dBool(x.F)})
	if x.C || full {
		fs = append(fs, tfld{16, dBool(x.C)})
	}
	if x.D || full {
		fs = append(fs, tfld{17, dBool(x.D)})
	}
	if x.A != 0 || full {
		fs = append(fs, tfld{100, dInt(I32, int64(x.A))})
	}
	if x.H != 0 || full {
		fs = append(fs, tfld{101, dInt(I16, int64(x.H))})
	}
	fs = append(fs, tfld{130, dInt(I8, int64(x.G))})
	if x.E != 0 || full {
		fs = append(fs, tfld{3000, dInt(I64, x.E)})
	}
	return dStruct(fs...)
}

// a union: at most one member is set; F points at the member that was decoded
type tUnion struct {
	A bool   `thrift:"1"`
	B int32  `thrift:"2"`
	C string `thrift:"3"`
	F any    `thrift:",union"`
}

func unionDOM(x tUnion) tval {
	var fs []tfld
	if x.A {
		fs = append(fs, tfld{1, dBool(true)})
	}
	if x.B != 0 {
		fs = append(fs, tfld{2, dInt(I32, int64(x.B))})
	}
	if x.C != "" {
		fs = append(fs, tfld{3, dBin([]byte(x.C))})
	}
	return dStruct(fs...)
}

func checkInnerT(a, b tInner, id string) {
	vfAssert(a.X == b.X, id+".X")
	vfAssert(a.Y == b.Y, id+".Y")
}

var tshapes = []tshape{
	{name: "scalars", ids: []int16{1, 2, 3, 4, 5, 7, 20, 21, 22},
		mk: func() any {
			return tScalars{A: vfBool(), B: int8(vfByte()), C: int16(wideI(0)), D: int32(wideI(1)), E: wideI(2), F: math.Float64frombits(vfU64()), G: vfString(vfLen), H: vfBytes(vfLen), I: vfBool()}
		},
		newp: func() any { return new(tScalars) },
		check: func(v, p any) {
			a, b := v.(tScalars), *p.(*tScalars)
			vfAssert(a.A == b.A, "scalars.A")
			vfAssert(a.B == b.B, "scalars.B")
			vfAssert(a.C == b.C, "scalars.C")
			vfAssert(a.D == b.D, "scalars.D")
			vfAssert(a.E == b.E, "scalars.E")
			vfAssert(math.Float64bits(a.F) == math.Float64bits(b.F), "scalars.F")
			vfAssert(a.G == b.G, "scalars.G")
			vfAssert(string(a.H) == string(b.H), "scalars.H")
			vfAssert(a.I == b.I, "scalars.I")
		},
		dom:  func(v any) tval { return scalarsDOM(v.(tScalars), false) },
		full: func(v any) tval { return scalarsDOM(v.(tScalars), true) }},
	{name: "opt", ids: []int16{1, 2, 3, 4, 5, 6},
		mk: func() any {
			v := tOpt{C: tInner{X: int32(wideI(0)), Y: vfString(vfLen)}, D: int32(i8v()), E: tEnum(vfByte())}
			if vfBool() {
				x := int32(wideI(1))
				v.A = &x
			}
			if vfBool() {
				v.B = &tInner{X: int32(i8v())}
			}
			if vfBool() {
				x := vfBool()
				v.F = &x
			}
			return v
		},
		newp: func() any { return new(tOpt) },
		check: func(v, p any) {
			a, b := v.(tOpt), *p.(*tOpt)
			vfAssert((a.A == nil) == (b.A == nil), "opt.A-presence")
			if a.A != nil && b.A != nil {
				vfAssert(*a.A == *b.A, "opt.A")
			}
			vfAssert((a.B == nil) == (b.B == nil), "opt.B-presence")
			if a.B != nil && b.B != nil {
				checkInnerT(*a.B, *b.B, "opt.B")
			}
			checkInnerT(a.C, b.C, "opt.C")
			vfAssert(a.D == b.D, "opt.D")
			vfAssert(a.E == b.E, "opt.E")
			vfAssert((a.F == nil) == (b.F == nil), "opt.F-presence")
			if a.F != nil && b.F != nil {
				vfAssert(*a.F == *b.F, "opt.F")
			}
		},
		dom:  func(v any) tval { return optDOM(v.(tOpt), false) },
		full: func(v any) tval { return optDOM(v.(tOpt), true) }},
	{name: "coll", ids: []int16{1, 2, 3, 4, 5, 6, 7},
		mk: func() any {
			v := tColl{}
			n := vfLen2
			if n > 0 {
				v.S = map[int32]struct{}{}
				v.M = map[string]int64{}
			}
			for i := 0; i < n; i++ {
				v.L = append(v.L, int16(wideI(0)))
				v.S[int32(i8v())] = struct{}{}
				v.M[vfString(vfLen)] = wideI(1)
				v.LB = append(v.LB, vfBytes(vfLen))
				v.LS = append(v.LS, tInner{X: int32(i8v())})
				v.LO = append(v.LO, vfBool())
			}
			if n > 0 {
				// two entries whose omitted (zero) fields differ: a decoder that reuses an element must reset it
				v.MS = map[int8]tInner{1: {X: int32(i8v())}, 2: {Y: vfString(1)}}
			}
			return v
		},
		newp: func() any { return new(tColl) },
		check: func(v, p any) {
			a, b := v.(tColl), *p.(*tColl)
			vfAssert(len(a.L) == len(b.L), "coll.L-len")
			for i := 0; i < len(a.L) && i < len(b.L); i++ {
				vfAssert(a.L[i] == b.L[i], "coll.L")
			}
			vfAssert(len(a.S) == len(b.S), "coll.S-len")
			for k := range a.S {
				_, ok := b.S[k]
				vfAssert(ok, "coll.S-key")
			}
			vfAssert(len(a.M) == len(b.M), "coll.M-len")
			for k, x := range a.M {
				y, ok := b.M[k]
				vfAssert(ok, "coll.M-key")
				vfAssert(x == y, "coll.M-val")
			}
			vfAssert(len(a.LB) == len(b.LB), "coll.LB-len")
			for i := 0; i < len(a.LB) && i < len(b.LB); i++ {
				vfAssert(string(a.LB[i]) == string(b.LB[i]), "coll.LB")
			}
			vfAssert(len(a.LS) == len(b.LS), "coll.LS-len")
			for i := 0; i < len(a.LS) && i < len(b.LS); i++ {
				checkInnerT(a.LS[i], b.LS[i], "coll.LS")
			}
			vfAssert(len(a.MS) == len(b.MS), "coll.MS-len")
			for k, x := range a.MS {
				y, ok := b.MS[k]
				vfAssert(ok, "coll.MS-key")
				checkInnerT(x, y, "coll.MS-val")
			}
			vfAssert(len(a.LO) == len(b.LO), "coll.LO-len")
			for i := 0; i < len(a.LO) && i < len(b.LO); i++ {
				vfAssert(a.LO[i] == b.LO[i], "coll.LO")
			}
		},
		dom:  func(v any) tval { return collDOM(v.(tColl), false) },
		full: func(v any) tval { return collDOM(v.(tColl), true) }},
	{name: "sparse", ids: []int16{1, 2, 16, 17, 100, 101, 130, 3000},
		mk: func() any {
			return tSparse{A: int32(wideI(0)), B: vfString(vfLen), C: vfBool(), D: vfBool(), E: wideI(1), F: vfBool(), G: int8(vfByte()), H: int16(i8v())}
		},
		newp: func() any { return new(tSparse) },
		check: func(v, p any) {
			a, b := v.(tSparse), *p.(*tSparse)
			vfAssert(a.A == b.A, "sparse.A")
			vfAssert(a.B == b.B, "sparse.B")
			vfAssert(a.C == b.C, "sparse.C")
			vfAssert(a.D == b.D, "sparse.D")
			vfAssert(a.E == b.E, "sparse.E")
			vfAssert(a.F == b.F, "sparse.F")
			vfAssert(a.G == b.G, "sparse.G")
			vfAssert(a.H == b.H, "sparse.H")
		},
		dom:  func(v any) tval { return sparseDOM(v.(tSparse), false) },
		full: func(v any) tval { return sparseDOM(v.(tSparse), true) }},
	{name: "union", ids: []int16{1, 2, 3},
		mk: func() any {
			v := tUnion{}
			switch vfIntIn(0, 3) {
			case 1:
				v.A = true
			case 2:
				v.B = int32(wideI(0))
			case 3:
				v.C = vfString(vfLen)
			}
			return v
		},
		newp: func() any { return new(tUnion) },
		check: func(v, p any) {
			a, b := v.(tUnion), p.(*tUnion)
			vfAssert(a.A == b.A, "union.A")
			vfAssert(a.B == b.B, "union.B")
			vfAssert(a.C == b.C, "union.C")
			set := a.A || a.B != 0 || a.C != ""
			vfAssert((b.F != nil) == set, "union.F-set-iff-a-member-is")
			switch x := b.F.(type) {
			case *bool:
				vfAssert(a.A && x == &b.A, "union.F-points-at-member-A")
			case *int32:
				vfAssert(a.B != 0 && x == &b.B, "union.F-points-at-member-B")
			case *string:
				vfAssert(a.C != "" && x == &b.C, "union.F-points-at-member-C")
			case nil:
			default:
				vfAssert(false, "union.F-type")
			}
		},
		dom:  func(v any) tval { return unionDOM(v.(tUnion)) },
		full: func(v any) tval { return unionDOM(v.(tUnion)) }},
}

// other protocol for cross-protocol checks
func otherProto() Protocol {
	if vfProto == 2 {
		return &BinaryProtocol{}
	}
	return &CompactProtocol{}
}

var _ = io.EOF
