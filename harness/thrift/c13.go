package thrift

import "math"

// ---- refThrift: transliteration of thrift-binary-protocol.md / thrift-compact-protocol.md (DESIGN.md Appendix A.6)

// binary protocol type codes: BOOL 2, I8 3, DOUBLE 4, I16 6, I32 8, I64 10, BINARY 11, STRUCT 12, MAP 13, SET 14, LIST 15
func specBinaryCode(t Type) byte {
	switch t {
	case TRUE, FALSE:
		return 2
	case I8:
		return 3
	case DOUBLE:
		return 4
	case I16:
		return 6
	case I32:
		return 8
	case I64:
		return 10
	case BINARY:
		return 11
	case STRUCT:
		return 12
	case MAP:
		return 13
	case SET:
		return 14
	case LIST:
		return 15
	}
	return 0
}

// compact protocol type codes are the values of the Type enumeration itself (TRUE 1 ... STRUCT 12)
func be16(v uint16) []byte { return []byte{byte(v >> 8), byte(v)} }
func be32(v uint32) []byte { return []byte{byte(v >> 24), byte(v >> 16), byte(v >> 8), byte(v)} }
func be64(v uint64) []byte {
	return []byte{byte(v >> 56), byte(v >> 48), byte(v >> 40), byte(v >> 32), byte(v >> 24), byte(v >> 16), byte(v >> 8), byte(v)}
}
func le64(v uint64) []byte {
	return []byte{byte(v), byte(v >> 8), byte(v >> 16), byte(v >> 24), byte(v >> 32), byte(v >> 40), byte(v >> 48), byte(v >> 56)}
}
func uleb(v uint64) []byte {
	var out []byte
	for v >= 0x80 {
		out = append(out, byte(v)|0x80)
		v >>= 7
	}
	return append(out, byte(v))
}
func zz(v int64) uint64 { return uint64(v<<1) ^ uint64(v>>63) }

func sameBytes(a, b []byte) bool {
	if len(a) != len(b) {
		return false
	}
	eq := true
	for i := range a {
		eq = vfAnd(eq, a[i] == b[i])
	}
	return eq
}

func validType() Type {
	t := Type(vfByte())
	vfAssume(t >= TRUE)
	vfAssume(t <= STRUCT)
	return t
}

// H13-scalars: WriteBool/Int8/16/32/64/Float64/Bytes/String/Length against the specifications, all three protocols.
func vfH_c13_scalars() {
	s := &vfSink{}
	w := proto().NewWriter(s)
	compact := vfProto == 2
	mark := func() int { return len(s.b) }
	at := 0
	// bool (as a value, e.g. list element): binary 1 byte 0/1; compact list elements: 1 byte (1 or 2 by the spec; 0/1 accepted)
	bv := vfBool()
	vfAssert(w.WriteBool(bv) == nil, "ok")
	if !compact {
		vfAssert(sameBytes(s.b[at:], []byte{byte(vfIte(bv, 1, 0))}), "bool")
	} else {
		vfAssert(mark()-at == 1, "bool-len")
	}
	at = mark()
	i8 := int8(vfByte())
	vfAssert(w.WriteInt8(i8) == nil, "ok")
	vfAssert(sameBytes(s.b[at:], []byte{byte(i8)}), "i8")
	at = mark()
	i16 := int16(vfU16())
	vfAssert(w.WriteInt16(i16) == nil, "ok")
	if compact {
		vfAssert(sameBytes(s.b[at:], uleb(zz(int64(i16)))), "i16-zigzag-varint")
	} else {
		vfAssert(sameBytes(s.b[at:], be16(uint16(i16))), "i16-big-endian")
	}
	at = mark()
	i32 := int32(vfU32())
	vfAssert(w.WriteInt32(i32) == nil, "ok")
	if compact {
		vfAssert(sameBytes(s.b[at:], uleb(zz(int64(i32)))), "i32-zigzag-varint")
	} else {
		vfAssert(sameBytes(s.b[at:], be32(uint32(i32))), "i32-big-endian")
	}
	at = mark()
	i64 := int64(vfU64())
	vfAssert(w.WriteInt64(i64) == nil, "ok")
	if compact {
		vfAssert(sameBytes(s.b[at:], uleb(zz(i64))), "i64-zigzag-varint")
	} else {
		vfAssert(sameBytes(s.b[at:], be64(uint64(i64))), "i64-big-endian")
	}
	at = mark()
	fb := vfU64()
	vfAssert(w.WriteFloat64(math.Float64frombits(fb)) == nil, "ok")
	if compact {
		vfKnown("F-C13-compact-double-endianness")
		vfAssert(sameBytes(s.b[at:], le64(fb)), "double-little-endian(compact)")
		vfKnownEnd()
	} else {
		vfAssert(sameBytes(s.b[at:], be64(fb)), "double-big-endian")
	}
	at = mark()
	data := vfBytes(vfLen)
	vfAssert(w.WriteBytes(data) == nil, "ok")
	if compact {
		vfAssert(sameBytes(s.b[at:], append(uleb(uint64(len(data))), data...)), "binary-varint-length")
	} else {
		vfAssert(sameBytes(s.b[at:], append(be32(uint32(len(data))), data...)), "binary-i32-length")
	}
	at = mark()
	str := vfString(vfLen)
	vfAssert(w.WriteString(str) == nil, "ok")
	if compact {
		vfAssert(sameBytes(s.b[at:], append(uleb(uint64(len(str))), str...)), "string-varint-length")
	} else {
		vfAssert(sameBytes(s.b[at:], append(be32(uint32(len(str))), str...)), "string-i32-length")
	}
	vfCover("done")
}

func binaryCodeKnown(t Type) bool { return t == I8 || t == STRUCT || t == FALSE }

// H13-field: field headers and the stop field.
func vfH_c13_field() {
	s := &vfSink{}
	w := proto().NewWriter(s)
	compact := vfProto == 2
	id := int16(vfU16())
	typ := validType()
	if compact {
		// the struct encoder passes the id delta with Delta=true when 0 < delta <= 15, else the id itself
		vfAssume(id > 0)
		delta := id <= 15
		vfAssert(w.WriteField(Field{ID: id, Type: typ, Delta: delta}) == nil, "ok")
		if delta {
			vfAssert(sameBytes(s.b, []byte{byte(id)<<4 | byte(typ)}), "field-short-form")
		} else {
			vfAssert(sameBytes(s.b, append([]byte{byte(typ)}, uleb(zz(int64(id)))...)), "field-long-form")
		}
	} else {
		vfAssert(w.WriteField(Field{ID: id, Type: typ}) == nil, "ok")
		vfAssert(len(s.b) == 3, "field-len")
		if len(s.b) == 3 {
			vfAssert(sameBytes(s.b[1:3], be16(uint16(id))), "field-id-big-endian")
			if binaryCodeKnown(typ) {
				vfAssert(s.b[0] == specBinaryCode(typ), "field-type-code")
			} else {
				vfKnown("F-C13-binary-type-codes")
				vfAssert(s.b[0] == specBinaryCode(typ), "field-type-code")
				vfKnownEnd()
			}
		}
	}
	at := len(s.b)
	vfAssert(w.WriteField(Field{Type: STOP}) == nil, "ok")
	if compact {
		vfAssert(sameBytes(s.b[at:], []byte{0}), "stop-field-one-byte")
	} else {
		vfAssert(len(s.b) > at, "stop-field-written")
		if len(s.b) > at {
			vfAssert(s.b[at] == 0, "stop-field-zero")
		}
		vfKnown("F-C13-binary-stop-field")
		vfAssert(len(s.b)-at == 1, "stop-field-one-byte")
		vfKnownEnd()
	}
	vfCover("done")
}

// H13-list: list and set headers.
func vfH_c13_list() {
	s := &vfSink{}
	w := proto().NewWriter(s)
	compact := vfProto == 2
	et := validType()
	n := int32(vfU32())
	vfAssume(n >= 0)
	if vfBool() {
		vfAssert(w.WriteList(List{Size: n, Type: et}) == nil, "ok")
	} else {
		vfAssert(w.WriteSet(Set{Size: n, Type: et}) == nil, "ok")
	}
	if compact {
		if n < 15 {
			vfAssert(sameBytes(s.b, []byte{byte(n)<<4 | byte(et)}), "list-short-form")
		} else {
			vfAssert(sameBytes(s.b, append([]byte{0xF0 | byte(et)}, uleb(uint64(n))...)), "list-long-form")
		}
	} else {
		vfAssert(len(s.b) == 5, "list-len")
		if len(s.b) == 5 {
			vfAssert(sameBytes(s.b[1:], be32(uint32(n))), "list-size-big-endian")
			if binaryCodeKnown(et) {
				vfAssert(s.b[0] == specBinaryCode(et), "list-type-code")
			} else {
				vfKnown("F-C13-binary-type-codes")
				vfAssert(s.b[0] == specBinaryCode(et), "list-type-code")
				vfKnownEnd()
			}
		}
	}
	vfCover("done")
}

// H13-map: map headers.
func vfH_c13_map() {
	s := &vfSink{}
	w := proto().NewWriter(s)
	compact := vfProto == 2
	kt, vt := validType(), validType()
	mn := int32(vfU32())
	vfAssume(mn >= 0)
	vfAssert(w.WriteMap(Map{Size: mn, Key: kt, Value: vt}) == nil, "ok")
	if compact {
		if mn == 0 {
			vfAssert(sameBytes(s.b, []byte{0}), "map-empty-one-byte")
		} else {
			vfAssert(sameBytes(s.b, append(uleb(uint64(mn)), byte(kt)<<4|byte(vt))), "map-header")
		}
	} else {
		vfAssert(len(s.b) == 6, "map-len")
		if len(s.b) == 6 {
			vfAssert(sameBytes(s.b[2:], be32(uint32(mn))), "map-size-big-endian")
			if binaryCodeKnown(kt) {
				vfAssert(s.b[0] == specBinaryCode(kt), "map-key-type-code")
			} else {
				vfKnown("F-C13-binary-type-codes")
				vfAssert(s.b[0] == specBinaryCode(kt), "map-key-type-code")
				vfKnownEnd()
			}
			if binaryCodeKnown(vt) {
				vfAssert(s.b[1] == specBinaryCode(vt), "map-value-type-code")
			} else {
				vfKnown("F-C13-binary-type-codes")
				vfAssert(s.b[1] == specBinaryCode(vt), "map-value-type-code")
				vfKnownEnd()
			}
		}
	}
	vfCover("done")
}

// H13-message: message headers.
func vfH_c13_message() {
	s := &vfSink{}
	w := proto().NewWriter(s)
	mt := MessageType(vfByte())
	vfAssume(mt >= Call)
	vfAssume(mt <= Oneway)
	name := vfString(vfLen)
	seq := int32(vfU32())
	vfAssert(w.WriteMessage(Message{Type: mt, Name: name, SeqID: seq}) == nil, "ok")
	switch vfProto {
	case 0: // strict: 0x8001 0x00 type | name (i32 length) | seqid
		want := append([]byte{0x80, 0x01, 0x00, byte(mt)}, be32(uint32(len(name)))...)
		want = append(append(want, name...), be32(uint32(seq))...)
		vfAssert(len(s.b) == len(want), "message-length")
		if len(s.b) == len(want) {
			vfAssert(s.b[0] == 0x80, "strict-msb")
			vfKnown("F-C13-strict-version")
			vfAssert(s.b[1] == 0x01, "strict-version-0x8001")
			vfKnownEnd()
			vfAssert(sameBytes(s.b[2:], want[2:]), "strict-rest")
		}
	case 1: // non-strict: name | type:i8 | seqid
		want := append(be32(uint32(len(name))), name...)
		want = append(append(want, byte(mt)), be32(uint32(seq))...)
		vfAssert(sameBytes(s.b, want), "nonstrict-message")
	case 2: // compact: 0x82, (type<<5)|version 1, seqid uleb, name
		vfAssert(len(s.b) >= 2, "message-length")
		if len(s.b) >= 2 {
			vfAssert(s.b[0] == 0x82, "compact-protocol-id")
			vfKnown("F-C13-compact-message-header")
			vfAssert(s.b[1] == byte(mt)<<5|1, "compact-version-and-type")
			vfKnownEnd()
			if seq >= 0 {
				want := append(uleb(uint64(seq)), uleb(uint64(len(name)))...)
				want = append(want, name...)
				vfAssert(sameBytes(s.b[2:], want), "compact-seqid-name")
			} else {
				vfKnown("F-C13-compact-message-header")
				want := append(uleb(uint64(uint32(seq))), uleb(uint64(len(name)))...)
				want = append(want, name...)
				vfAssert(sameBytes(s.b[2:], want), "compact-seqid-name")
				vfKnownEnd()
			}
		}
	}
	vfCover("done")
}
