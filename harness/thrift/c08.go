package thrift

import "io"

// H08-reader: every Reader method of both protocols on free bytes, through each reader kind.
// - no panic / out-of-object access (engine monitors)
// - on truncated input the error is io.EOF only when nothing was consumed, otherwise io.ErrUnexpectedEOF or a
//   descriptive error, never a nil error with missing data
// - sizes returned are non-negative and bounded
// - allocation bound: no single allocation larger than 64*len(input)+1024 bytes (engine ALLOC check: the solver is
//   asked whether the allocation size can exceed the limit)
// vfShape selects the method.
func vfH_c08_reader() {
	b := vfBytes(vfLen)
	src, pos := source(b)
	r := proto().NewReader(src)
	vfAllocLimit(64*len(b) + 8192)
	vfAllocExplore(len(b) + 2)
	var err error
	switch vfShape {
	case 0:
		_, err = r.ReadBool()
	case 1:
		_, err = r.ReadInt8()
	case 2:
		_, err = r.ReadInt16()
	case 3:
		_, err = r.ReadInt32()
	case 4:
		_, err = r.ReadInt64()
	case 5:
		_, err = r.ReadFloat64()
	case 6:
		var d []byte
		d, err = r.ReadBytes()
		if err == nil {
			vfAssert(len(d) <= len(b), "bytes-within-input")
		}
	case 7:
		var s string
		s, err = r.ReadString()
		if err == nil {
			vfAssert(len(s) <= len(b), "string-within-input")
		}
	case 8:
		var n int
		n, err = r.ReadLength()
		if err == nil {
			vfAssert(n >= 0, "length-nonnegative")
			vfAssert(n <= 0x7fffffff, "length-int32")
		}
	case 9:
		_, err = r.ReadField()
	case 10:
		var l List
		l, err = r.ReadList()
		if err == nil {
			vfAssert(l.Size >= 0, "list-size-nonnegative")
		}
	case 11:
		var l Set
		l, err = r.ReadSet()
		if err == nil {
			vfAssert(l.Size >= 0, "set-size-nonnegative")
		}
	case 12:
		var m Map
		m, err = r.ReadMap()
		if err == nil {
			vfAssert(m.Size >= 0, "map-size-nonnegative")
		}
	case 13:
		_, err = r.ReadMessage()
	}
	if err == nil {
		vfCover("ok")
		vfAssert(pos() <= len(b), "consumed-within-input")
		// success requires the complete encoding to be present
		if vfProto != 2 {
			need := 0
			switch vfShape {
			case 0, 1:
				need = 1
			case 2:
				need = 2
			case 3, 8:
				need = 4
			case 4, 5:
				need = 8
			case 6, 7:
				need = 4
			case 9:
				need = 3
			case 10, 11:
				need = 5
			case 12:
				need = 6
			case 13:
				need = 8
			}
			vfAssert(pos() >= need, "success-only-on-complete-input")
		} else if vfShape <= 13 {
			vfAssert(pos() >= 1, "success-only-on-complete-input")
		}
	} else {
		vfCover("err")
		if err == io.EOF {
			vfCover("eof")
			vfAssert(pos() == 0 || len(b) == 0, "plain-EOF-only-when-nothing-was-read")
		}
	}
}

// H08-skip: skip() on free bytes for every type code terminates without panic and never reports success after
// running out of input.
func vfH_c08_skip() {
	b := vfBytes(vfLen)
	src, pos := source(b)
	r := proto().NewReader(src)
	vfAllocLimit(64*len(b) + 8192)
	vfAllocExplore(len(b) + 2)
	t := Type(vfByte())
	err := skip(r, t)
	if err == nil {
		vfCover("ok")
		vfAssert(pos() <= len(b), "consumed-within-input")
	} else {
		vfCover("err")
	}
}

// H08-long: a binary / string value whose declared length (vfLen: thousands of bytes, read in chunks) exceeds the bytes
// that follow (vfLen2 of them): always an error of the unexpected-EOF class - never plain io.EOF, a byte was consumed -
// whatever the position of the cut relative to the read chunks; allocation stays bounded by what is available. With
// vfLen2 == vfLen the value is returned intact.
func vfH_c08_long() {
	s := &vfSink{}
	p := proto()
	p.NewWriter(s).WriteLength(vfLen)
	in := append([]byte(nil), s.b...)
	c := vfByte()
	for i := 0; i < vfLen2; i++ {
		in = append(in, 'x')
	}
	if vfLen2 > 0 { // the symbolic byte is the last byte of the value when the value is complete, else the last byte available
		last := vfLen2
		if last > vfLen {
			last = vfLen
		}
		in[len(s.b)+last-1] = c
	}
	src, _ := source(in)
	r := p.NewReader(src)
	vfAllocLimit(2*len(in) + 16384)
	var got []byte
	var err error
	if vfShape == 0 {
		got, err = r.ReadBytes()
	} else {
		var str string
		str, err = r.ReadString()
		got = []byte(str)
	}
	if vfLen2 >= vfLen {
		vfAssert(err == nil && len(got) == vfLen && got[vfLen-1] == c, "complete-value-returned")
		vfCover("ok")
	} else {
		vfAssert(err != nil, "truncated-value-is-an-error")
		vfAssert(err != io.EOF, "no-plain-EOF-after-the-length-was-consumed")
		vfCover("err")
	}
}
