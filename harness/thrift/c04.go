package thrift

import "math"

// H04-protocol: for every Writer method with symbolic arguments the matching Reader method returns the arguments, for
// the three protocols and the four reader kinds; the reader consumes exactly what the writer produced.
// vfShape selects the group of methods (keeps the product of varint length classes small):
// 0 fixed-size scalars + i16, 1 i32/i64, 2 bytes/string/length, 3 field/list/set, 4 map + message
func vfH_c04_protocol() {
	s := &vfSink{}
	p := proto()
	w := p.NewWriter(s)
	compact := vfProto == 2
	g := vfShape
	bv := vfBool()
	i8 := int8(vfByte())
	i16 := int16(vfU16())
	i32 := int32(vfU32())
	i64 := int64(vfU64())
	fb := vfU64()
	data := vfBytes(vfLen)
	str := vfString(vfLen)
	ln := int(vfU32() >> 1)
	fid := int16(vfU16())
	ft := validType()
	lt := validType()
	lsz := int32(vfU32())
	kt, vt := validType(), validType()
	msz := int32(vfU32())
	mt := MessageType(vfByte() & 3)
	name := vfString(vfLen2)
	seq := int32(vfU32())
	var f Field
	switch g {
	case 0:
		vfAssert(w.WriteBool(bv) == nil, "write-ok")
		vfAssert(w.WriteInt8(i8) == nil, "write-ok")
		vfAssert(w.WriteFloat64(math.Float64frombits(fb)) == nil, "write-ok")
		vfAssert(w.WriteInt16(i16) == nil, "write-ok")
	case 1:
		vfAssert(w.WriteInt32(i32) == nil, "write-ok")
		vfAssert(w.WriteInt64(i64) == nil, "write-ok")
	case 2:
		vfAssert(w.WriteBytes(data) == nil, "write-ok")
		vfAssert(w.WriteString(str) == nil, "write-ok")
		vfAssert(w.WriteLength(ln) == nil, "write-ok")
	case 3:
		if compact {
			vfAssume(fid > 0)
			f = Field{ID: fid, Type: ft, Delta: fid <= 15}
		} else {
			f = Field{ID: fid, Type: ft}
		}
		vfAssert(w.WriteField(f) == nil, "write-ok")
		vfAssume(lsz >= 0)
		vfAssert(w.WriteList(List{Size: lsz, Type: lt}) == nil, "write-ok")
		vfAssert(w.WriteSet(Set{Size: lsz, Type: lt}) == nil, "write-ok")
	case 4:
		vfAssume(msz >= 0)
		vfAssert(w.WriteMap(Map{Size: msz, Key: kt, Value: vt}) == nil, "write-ok")
		if compact {
			vfAssume(seq >= 0) // negative sequence ids: see C13 finding F-C13-compact-message-header
		}
		vfAssert(w.WriteMessage(Message{Type: mt, Name: name, SeqID: seq}) == nil, "write-ok")
	}

	src, pos := source(s.b)
	r := p.NewReader(src)
	switch g {
	case 0:
		gb, err := r.ReadBool()
		vfAssert(err == nil, "read-ok")
		vfAssert(gb == bv, "bool")
		g8, err := r.ReadInt8()
		vfAssert(err == nil, "read-ok")
		vfAssert(g8 == i8, "i8")
		gf, err := r.ReadFloat64()
		vfAssert(err == nil, "read-ok")
		vfAssert(math.Float64bits(gf) == fb, "double-bits")
		g16, err := r.ReadInt16()
		vfAssert(err == nil, "read-ok")
		vfAssert(g16 == i16, "i16")
	case 1:
		g32, err := r.ReadInt32()
		vfAssert(err == nil, "read-ok")
		vfAssert(g32 == i32, "i32")
		g64, err := r.ReadInt64()
		vfAssert(err == nil, "read-ok")
		vfAssert(g64 == i64, "i64")
	case 2:
		gd, err := r.ReadBytes()
		vfAssert(err == nil, "read-ok")
		vfAssert(string(gd) == string(data), "bytes")
		gs, err := r.ReadString()
		vfAssert(err == nil, "read-ok")
		vfAssert(gs == str, "string")
		gl, err := r.ReadLength()
		vfAssert(err == nil, "read-ok")
		vfAssert(gl == ln, "length")
	case 3:
		gfld, err := r.ReadField()
		vfAssert(err == nil, "read-ok")
		vfAssert(gfld.ID == fid, "field-id")
		vfAssert(gfld.Type == ft, "field-type")
		glist, err := r.ReadList()
		vfAssert(err == nil, "read-ok")
		vfAssert(glist.Size == lsz, "list-size")
		vfAssert(glist.Type == lt, "list-type")
		gset, err := r.ReadSet()
		vfAssert(err == nil, "read-ok")
		vfAssert(gset.Size == lsz, "set-size")
		vfAssert(gset.Type == lt, "set-type")
	case 4:
		gmap, err := r.ReadMap()
		vfAssert(err == nil, "read-ok")
		vfAssert(gmap.Size == msz, "map-size")
		if msz > 0 || !compact {
			vfAssert(gmap.Key == kt, "map-key-type")
			vfAssert(gmap.Value == vt, "map-value-type")
		}
		gm, err := r.ReadMessage()
		vfAssert(err == nil, "read-ok")
		vfAssert(gm.Type == mt, "message-type")
		vfAssert(gm.Name == name, "message-name")
		vfAssert(gm.SeqID == seq, "message-seqid")
	}
	vfAssert(pos() == len(s.b), "reader-consumed-exactly-what-was-written")
	vfCover("done")
}
