package iso8601

import "time"

// ---- reference grammar recogniser for Valid, written from the property statement:
// YYYY-MM-DD[(T|space)hh:mm:ss[.d{1,9}][Z|[space](+|-)hh[:]mm]]
func refValid(s string, flags ValidFlags) bool {
	i := 0
	dig := func(n int) bool {
		if i+n > len(s) {
			return false
		}
		for k := 0; k < n; k++ {
			if s[i+k] < '0' || s[i+k] > '9' {
				return false
			}
		}
		i += n
		return true
	}
	ch := func(c byte) bool {
		if i < len(s) && s[i] == c {
			i++
			return true
		}
		return false
	}
	if !dig(4) || !ch('-') || !dig(2) || !ch('-') || !dig(2) {
		return false
	}
	if i == len(s) {
		return flags&AllowMissingTime != 0
	}
	if !ch('T') {
		if flags&AllowSpaceSeparator == 0 || !ch(' ') {
			return false
		}
	}
	if !dig(2) || !ch(':') || !dig(2) || !ch(':') || !dig(2) {
		return false
	}
	if ch('.') {
		if !dig(1) {
			return false
		}
		for k := 0; k < 8 && i < len(s) && s[i] >= '0' && s[i] <= '9'; k++ {
			i++
		}
	} else if flags&AllowMissingSubsecond == 0 {
		return false
	}
	if i == len(s) {
		return flags&AllowMissingTimezone != 0
	}
	if ch('Z') {
		return i == len(s)
	}
	if flags&AllowSpaceSeparator != 0 {
		ch(' ')
	}
	if !ch('+') && !ch('-') {
		return false
	}
	if !dig(2) {
		return false
	}
	if !ch(':') {
		if flags&AllowNumericTimezone == 0 {
			return false
		}
	}
	if !dig(2) {
		return false
	}
	return i == len(s)
}

var vfLen int

// H18-valid: Valid(s, flags) == grammar, every byte and all 64 flag bits free.
func vfH_valid() {
	n := vfLen
	s := vfString(n)
	flags := ValidFlags(vfInt())
	got := Valid(s, flags)
	want := refValid(s, flags)
	if got {
		vfCover("valid-true")
	} else {
		vfCover("valid-false")
	}
	vfAssert(got == want, "Valid==grammar")
}

// ---- Gregorian calendar reference
func isLeap(y uint64) bool { return y%4 == 0 && (y%100 != 0 || y%400 == 0) }
func daysIn(m, y uint64) uint64 {
	switch m {
	case 2:
		if isLeap(y) {
			return 29
		}
		return 28
	case 4, 6, 9, 11:
		return 30
	}
	return 31
}

// H18-days: inductive characterisation of daysSinceEpoch as the Gregorian day count relative to 1970-01-01.
func vfH_days() {
	y, mo, d := vfU64(), vfU64(), vfU64()
	vfAssume(y <= 9999)
	vfAssume(mo >= 1)
	vfAssume(mo <= 12)
	vfAssume(d >= 1)
	vfAssume(d <= 31)
	vfAssert(daysSinceEpoch(1970, 1, 1) == 0, "base")
	if d < 31 {
		vfAssert(daysSinceEpoch(y, mo, d+1) == daysSinceEpoch(y, mo, d)+1, "day-step")
	}
	if mo < 12 {
		vfAssert(daysSinceEpoch(y, mo+1, 1) == daysSinceEpoch(y, mo, 1)+daysIn(mo, y), "month-step")
	}
	if y < 9999 {
		vfAssert(daysSinceEpoch(y+1, 1, 1) == daysSinceEpoch(y, 12, 1)+31, "year-step")
	}
	vfAssert(isLeapYear(y) == isLeap(y), "leap")
	vfCover("done")
}

// H18-validate: validate() accepts exactly the Gregorian dates / times of day.
func vfH_validate() {
	y, mo, d, h, mi, s := vfU64(), vfU64(), vfU64(), vfU64(), vfU64(), vfU64()
	vfAssume(y <= 9999)
	vfAssume(mo <= 99)
	vfAssume(d <= 99)
	vfAssume(h <= 99)
	vfAssume(mi <= 99)
	vfAssume(s <= 99)
	ok := validate(y, mo, d, h, mi, s) == nil
	want := vfAnd(vfAnd(mo >= 1, mo <= 12), vfAnd(vfAnd(h < 24, mi < 60), s < 60))
	want = vfAnd(want, d >= 1)
	if mo >= 1 && mo <= 12 {
		want = vfAnd(want, d <= daysIn(mo, y))
	}
	if ok {
		vfCover("ok")
	} else {
		vfCover("rejected")
	}
	vfAssert(ok == want, "validate==calendar")
}

// H18-masks: nonNumeric(u) is non-zero exactly when some byte lies outside '0'..'9' (borrows make the per-byte flags
// above the first offending byte unreliable, the code only tests for zero), (the code only tests for zero).
func vfH_masks() {
	u := vfU64()
	r := nonNumeric(u)
	any := false
	for i := uint(0); i < 8; i++ {
		b := byte(u >> (8 * i))
		any = vfOr(any, vfOr(b < '0', b > '9'))
		vfAssert((r>>(8*i))&0x7f == 0, "nonNumeric-only-msb")
	}
	vfAssert((r != 0) == any, "nonNumeric-nonzero-iff-some-non-digit")
	vfCover("done")
}

func timeParse(s string) (time.Time, error) { return time.Parse(time.RFC3339Nano, s) }

// shape assumes the strict fast-path shape: separators fixed, digits elsewhere, 'Z' last, '.' at 19 when longer than 20.
func shape(s string) {
	n := len(s)
	for i := 0; i < n; i++ {
		switch {
		case i == n-1:
			vfAssume(s[i] == 'Z')
		case i == 4 || i == 7:
			vfAssume(s[i] == '-')
		case i == 10:
			vfAssume(s[i] == 'T')
		case i == 13 || i == 16:
			vfAssume(s[i] == ':')
		case i == 19:
			vfAssume(s[i] == '.')
		default:
			vfAssume(s[i] >= '0')
			vfAssume(s[i] <= '9')
		}
	}
}

// H18-accept: on strictly shaped input (every digit free) Parse accepts exactly when the REAL time.Parse body,
// executed symbolically on the same string, accepts.
func vfH_parseAccept() {
	n := vfLen
	s := vfString(n)
	shape(s)
	_, e1 := Parse(s)
	_, e2 := timeParse(s)
	if e1 == nil {
		vfCover("iso-ok")
	} else {
		vfCover("iso-err")
	}
	if vfNative() {
		// nothing to cross-check natively: the oracle already is the real time.Parse
	}
	vfAssert((e1 == nil) == (e2 == nil), "accept-iff-time.Parse")
}

func dig2(s string, i int) uint64 { return uint64(s[i]-'0')*10 + uint64(s[i+1]-'0') }

const fnDays = "github.com/segmentio/encoding/iso8601.daysSinceEpoch"
const fnValidate = "github.com/segmentio/encoding/iso8601.validate"

// H18-instant: for accepted shaped input the returned instant is the one the digit fields denote, location UTC.
// Decomposition (keeps 64-bit multiplications out of the solver): (1) the six fields the code hands to validate()
// and daysSinceEpoch() equal the decimal value of the digits; (2) the returned Unix time is daysSinceEpoch of exactly
// those field terms (hash-consed, so syntactic) *86400 + time of day; (3) H18-days pins daysSinceEpoch to the
// Gregorian calendar; (4) nanoseconds equal the fraction digits scaled to 9 places.
func vfH_parseInstant() {
	n := vfLen
	s := vfString(n)
	shape(s)
	if vfNative() {
		t, err := Parse(s)
		t2, e2 := timeParse(s)
		vfAssert((err == nil) == (e2 == nil), "fields")
		if err == nil && e2 == nil {
			vfAssert(t.Equal(t2), "unix-seconds")
			vfAssert(t.Nanosecond() == t2.Nanosecond(), "nanoseconds")
			vfAssert(t.Location() == time.UTC, "utc")
		}
		return
	}
	vfWatch(fnDays)
	vfWatch(fnValidate)
	t, err := Parse(s)
	if err != nil {
		vfCover("rejected")
		return
	}
	vfCover("accepted")
	y := uint64(s[0]-'0')*1000 + uint64(s[1]-'0')*100 + uint64(s[2]-'0')*10 + uint64(s[3]-'0')
	mo, d, h, mi, sec := dig2(s, 5), dig2(s, 8), dig2(s, 11), dig2(s, 14), dig2(s, 17)
	cy, cmo, cd := vfArgU64(fnValidate, 0), vfArgU64(fnValidate, 1), vfArgU64(fnValidate, 2)
	ch, cmi, cs := vfArgU64(fnValidate, 3), vfArgU64(fnValidate, 4), vfArgU64(fnValidate, 5)
	vfAssert(cy == y, "fields")
	vfAssert(cmo == mo, "fields")
	vfAssert(cd == d, "fields")
	vfAssert(ch == h, "fields")
	vfAssert(cmi == mi, "fields")
	vfAssert(cs == sec, "fields")
	vfAssert(vfArgU64(fnDays, 0) == cy, "fields")
	vfAssert(vfArgU64(fnDays, 1) == cmo, "fields")
	vfAssert(vfArgU64(fnDays, 2) == cd, "fields")
	want := int64(daysSinceEpoch(cy, cmo, cd))*86400 + int64(ch*3600+cmi*60+cs)
	var ns int64
	for i := 20; i < n-1; i++ {
		ns = ns*10 + int64(s[i]-'0')
	}
	for i := n - 1; i < 29 && n > 20; i++ {
		ns *= 10
	}
	vfAssert(t.Unix() == want, "unix-seconds")
	vfAssert(int64(t.Nanosecond()) == ns, "nanoseconds")
	vfAssert(t.Location() == time.UTC, "utc")
}

// H18-route: every byte free. time.Parse is replaced by an uninterpreted function (same argument => same result),
// so a path either delegates to it (then Parse must hand its result through unchanged) or decides by itself -
// and may do that only for strictly shaped input, which H18-accept/H18-instant cover with the real oracle.
func vfH_parseRoute() {
	n := vfLen
	s := vfString(n)
	if vfNative() {
		t, err := Parse(s)
		t2, e2 := timeParse(s)
		vfAssert((err == nil) == (e2 == nil), "accept-iff-time.Parse")
		vfAssert((err == nil) == (e2 == nil), "delegation-error-parity")
		if err == nil && e2 == nil {
			vfAssert(t.Equal(t2), "delegation-value")
		}
		return
	}
	vfUF("time.Parse")
	t, err := Parse(s)
	if vfCalls("time.Parse") > 0 {
		vfCover("delegated")
		t2, e2 := timeParse(s)
		vfAssert((err == nil) == (e2 == nil), "delegation-error-parity")
		if err == nil && e2 == nil {
			vfAssert(t == t2, "delegation-value")
		}
		return
	}
	vfCover("decided")
	strict := n >= 20 && n <= 30 && n != 21
	for i := 0; strict && i < n; i++ {
		c := s[i]
		switch {
		case i == n-1:
			strict = c == 'Z'
		case i == 4 || i == 7:
			strict = c == '-'
		case i == 10:
			strict = c == 'T'
		case i == 13 || i == 16:
			strict = c == ':'
		case i == 19:
			strict = c == '.'
		default:
			strict = c >= '0' && c <= '9'
		}
	}
	if strict {
		vfCover("decided-strict")
		return
	}
	// the code decided a non-strict input by itself: compare with the real time.Parse body
	vfCover("decided-nonstrict")
	vfUFOff("time.Parse")
	_, e2 := timeParse(s)
	vfAssert((err == nil) == (e2 == nil), "accept-iff-time.Parse")
}
