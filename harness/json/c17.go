package json

// Reference token stream for a VALID document: an independent recursive scanner records, for every delimiter and
// scalar, its byte range and (for scalars and opening delimiters) the number of enclosing containers, the position of
// its element/member in the parent and whether it is an object key. Validated natively against
// encoding/json.Decoder.Token in the self-test (tools/selftest).
type refTok struct {
	start, end   int
	depth, index int
	isKey        bool
	positional   bool // depth/index/isKey are specified for this token (scalars and opening delimiters)
}

type refT struct {
	refP
	toks []refTok
}

func (p *refT) delim(depth, index int, positional bool) {
	p.toks = append(p.toks, refTok{p.i, p.i + 1, depth, index, false, positional})
	p.i++
}

func (p *refT) value(depth, index int, isKey bool) bool {
	p.ws()
	if p.i >= len(p.b) {
		return false
	}
	start := p.i
	switch c := p.b[p.i]; {
	case c == '{':
		p.delim(depth, index, true)
		p.ws()
		if p.i < len(p.b) && p.b[p.i] == '}' {
			p.delim(0, 0, false)
			return true
		}
		for n := 0; ; n++ {
			p.ws()
			ks := p.i
			if !p.str() {
				return false
			}
			p.toks = append(p.toks, refTok{ks, p.i, depth + 1, n, true, true})
			p.ws()
			if p.i >= len(p.b) || p.b[p.i] != ':' {
				return false
			}
			p.delim(0, 0, false)
			if !p.value(depth+1, n, false) {
				return false
			}
			p.ws()
			if p.i >= len(p.b) {
				return false
			}
			if p.b[p.i] == '}' {
				p.delim(0, 0, false)
				return true
			}
			if p.b[p.i] != ',' {
				return false
			}
			p.delim(0, 0, false)
		}
	case c == '[':
		p.delim(depth, index, true)
		p.ws()
		if p.i < len(p.b) && p.b[p.i] == ']' {
			p.delim(0, 0, false)
			return true
		}
		for n := 0; ; n++ {
			if !p.value(depth+1, n, false) {
				return false
			}
			p.ws()
			if p.i >= len(p.b) {
				return false
			}
			if p.b[p.i] == ']' {
				p.delim(0, 0, false)
				return true
			}
			if p.b[p.i] != ',' {
				return false
			}
			p.delim(0, 0, false)
		}
	}
	var ok bool
	switch c := p.b[p.i]; {
	case c == '"':
		ok = p.str()
	case c == 't':
		ok = p.lit("true")
	case c == 'f':
		ok = p.lit("false")
	case c == 'n':
		ok = p.lit("null")
	default:
		ok = p.num()
	}
	if ok {
		p.toks = append(p.toks, refTok{start, p.i, depth, index, isKey, true})
	}
	return ok
}

func refTokenize(b []byte) ([]refTok, bool) {
	p := &refT{refP: refP{b: b}}
	if !p.value(0, 0, false) {
		return nil, false
	}
	p.ws()
	if p.i != len(b) {
		return nil, false
	}
	return p.toks, true
}

func classOfFirst(c byte) Kind {
	switch c {
	case '"':
		return String
	case 'n':
		return Null
	case 't', 'f':
		return Bool
	case '{':
		return Object
	case '[':
		return Array
	}
	return Num
}

// H17-stream: every byte string of the length. Termination within len+1 calls, progress, error stickiness; for valid
// documents the exact token stream with Depth/Index/IsKey/Kind/Remaining.
func vfH_c17_stream() {
	n := vfLen
	b := vfBytes(n)
	if vfMode == 1 {
		// structural alphabet: longer documents made of delimiters, a digit, a letter-free key (""), and a space
		for i := range b {
			c := b[i]
			ok := vfOr(c == '{', c == '}')
			ok = vfOr(ok, c == '[')
			ok = vfOr(ok, c == ']')
			ok = vfOr(ok, c == ',')
			ok = vfOr(ok, c == ':')
			ok = vfOr(ok, c == '1')
			ok = vfOr(ok, c == '"')
			vfAssume(ok)
		}
	}
	ref, valid := refTokenize(b)
	if vfNative() {
		checkRefValid(b, valid)
	}
	tok := NewTokenizer(b)
	k := 0
	last := n + 1
	for tok.Next() {
		vfAssert(k < n, "terminates-within-len-tokens")
		if k >= n {
			return
		}
		rem := tok.Remaining()
		vfAssert(rem < last, "each-token-consumes-input")
		last = rem
		end := n - rem
		vfAssert(vfOffsetIn(tok.Value, b)+len(tok.Value) == end, "Value-is-the-subslice-ending-at-Remaining")
		if valid {
			vfAssert(k < len(ref), "no-extra-token")
			if k < len(ref) {
				r := ref[k]
				vfAssert(end == r.end, "token-end")
				vfAssert(len(tok.Value) == r.end-r.start, "token-length")
				if r.positional {
					vfAssert(tok.Depth == r.depth, "Depth")
					vfAssert(tok.Index == r.index, "Index")
					vfAssert(tok.IsKey == r.isKey, "IsKey")
					vfAssert(tok.Kind().Class() == classOfFirst(b[r.start]), "Kind-class")
					if b[r.start] == 't' || b[r.start] == 'f' {
						vfAssert(tok.Bool() == (b[r.start] == 't'), "Bool")
					}
				}
			}
		}
		k++
	}
	if valid {
		vfCover("valid-doc")
		vfAssert(tok.Err == nil, "valid-doc-no-error")
		vfAssert(k == len(ref), "all-tokens-delivered")
	} else {
		vfCover("invalid-doc")
	}
	if tok.Err != nil {
		vfCover("error")
		vfAssert(!tok.Next(), "error-is-sticky")
		vfAssert(!tok.Next(), "error-is-sticky")
		vfAssert(tok.Err != nil, "error-is-sticky")
	}
}

var c17docs = []string{`[{"a":[1,2]},3]`, `{"k":[1,{"x":null}],"z":true}`, ` [ ] `, `7`, `[[[[[1]]]]]`,
	`["say \"hi\"",{"k\n":"\u00e9x"}]`, "[\"\xc3\xa9\",{},2]"}

// H17-reset: a tokenizer that was abandoned mid-document or failed (free bytes b1), then Reset to a second (valid)
// document, yields exactly that document's reference token stream - with a pool that may hand back ANY previously
// released stack (including the one left non-empty by the first run) or none.
func vfH_c17_reset() {
	vfPoolMode(1)
	b1 := vfBytes(vfLen)
	doc := []byte(c17docs[vfMode])
	ref, valid := refTokenize(doc)
	vfAssert(valid, "template-is-valid")
	t := NewTokenizer(b1)
	steps := vfIntIn(0, vfLen)
	for i := 0; i < steps; i++ {
		if !t.Next() {
			break
		}
	}
	if t.stack != nil && len(t.stack.state) > 0 {
		vfCover("stack-left-nonempty")
	}
	t.Reset(doc)
	k := 0
	for t.Next() {
		vfAssert(k < len(ref), "reset-no-extra-token")
		if k >= len(ref) {
			return
		}
		r := ref[k]
		vfAssert(len(doc)-t.Remaining() == r.end, "reset-token-end")
		vfAssert(string(t.Value) == string(doc[r.start:r.end]), "reset-token-value")
		if r.positional {
			vfAssert(t.Depth == r.depth, "reset-Depth")
			vfAssert(t.Index == r.index, "reset-Index")
			vfAssert(t.IsKey == r.isKey, "reset-IsKey")
		}
		k++
	}
	vfAssert(t.Err == nil, "reset-no-error")
	vfAssert(k == len(ref), "reset-all-tokens")
	vfCover("done")
}
