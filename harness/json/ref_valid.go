package json

// Reference models (DESIGN.md Appendix A.1). refValid is an independent recogniser of the RFC 8259 grammar; it is
// validated natively against encoding/json.Valid in every replay (vfModelBug) and in the self-test.

// refValid: independent RFC 8259 recogniser (explicit recursion on index).
type refP struct {
	b []byte
	i int
}

func (p *refP) ws() {
	for p.i < len(p.b) {
		c := p.b[p.i]
		if c == ' ' || c == '\t' || c == '\n' || c == '\r' {
			p.i++
		} else {
			return
		}
	}
}

func (p *refP) lit(s string) bool {
	if p.i+len(s) > len(p.b) {
		return false
	}
	for k := 0; k < len(s); k++ {
		if p.b[p.i+k] != s[k] {
			return false
		}
	}
	p.i += len(s)
	return true
}

func isHex(c byte) bool {
	return (c >= '0' && c <= '9') || (c >= 'a' && c <= 'f') || (c >= 'A' && c <= 'F')
}

func (p *refP) str() bool {
	if p.i >= len(p.b) || p.b[p.i] != '"' {
		return false
	}
	p.i++
	for p.i < len(p.b) {
		c := p.b[p.i]
		switch {
		case c == '"':
			p.i++
			return true
		case c == '\\':
			p.i++
			if p.i >= len(p.b) {
				return false
			}
			e := p.b[p.i]
			switch e {
			case '"', '\\', '/', 'b', 'f', 'n', 'r', 't':
				p.i++
			case 'u':
				if p.i+4 >= len(p.b) {
					return false
				}
				for k := 1; k <= 4; k++ {
					if !isHex(p.b[p.i+k]) {
						return false
					}
				}
				p.i += 5
			default:
				return false
			}
		case c < 0x20:
			return false
		default:
			p.i++
		}
	}
	return false
}

func (p *refP) digits() bool {
	n := 0
	for p.i < len(p.b) && p.b[p.i] >= '0' && p.b[p.i] <= '9' {
		p.i++
		n++
	}
	return n > 0
}

func (p *refP) num() bool {
	if p.i < len(p.b) && p.b[p.i] == '-' {
		p.i++
	}
	if p.i >= len(p.b) {
		return false
	}
	if p.b[p.i] == '0' {
		p.i++
	} else if p.b[p.i] >= '1' && p.b[p.i] <= '9' {
		p.digits()
	} else {
		return false
	}
	if p.i < len(p.b) && p.b[p.i] == '.' {
		p.i++
		if !p.digits() {
			return false
		}
	}
	if p.i < len(p.b) && (p.b[p.i] == 'e' || p.b[p.i] == 'E') {
		p.i++
		if p.i < len(p.b) && (p.b[p.i] == '+' || p.b[p.i] == '-') {
			p.i++
		}
		if !p.digits() {
			return false
		}
	}
	return true
}

func (p *refP) value() bool {
	p.ws()
	if p.i >= len(p.b) {
		return false
	}
	switch c := p.b[p.i]; {
	case c == '{':
		p.i++
		p.ws()
		if p.i < len(p.b) && p.b[p.i] == '}' {
			p.i++
			return true
		}
		for {
			p.ws()
			if !p.str() {
				return false
			}
			p.ws()
			if p.i >= len(p.b) || p.b[p.i] != ':' {
				return false
			}
			p.i++
			if !p.value() {
				return false
			}
			p.ws()
			if p.i >= len(p.b) {
				return false
			}
			if p.b[p.i] == '}' {
				p.i++
				return true
			}
			if p.b[p.i] != ',' {
				return false
			}
			p.i++
		}
	case c == '[':
		p.i++
		p.ws()
		if p.i < len(p.b) && p.b[p.i] == ']' {
			p.i++
			return true
		}
		for {
			if !p.value() {
				return false
			}
			p.ws()
			if p.i >= len(p.b) {
				return false
			}
			if p.b[p.i] == ']' {
				p.i++
				return true
			}
			if p.b[p.i] != ',' {
				return false
			}
			p.i++
		}
	case c == '"':
		return p.str()
	case c == 't':
		return p.lit("true")
	case c == 'f':
		return p.lit("false")
	case c == 'n':
		return p.lit("null")
	default:
		return p.num()
	}
}

func refValid(b []byte) bool {
	p := &refP{b: b}
	if !p.value() {
		return false
	}
	p.ws()
	return p.i == len(b)
}


// refValue reports whether b starts (after optional whitespace) with one JSON value and returns the offset just
// behind it.
func refValue(b []byte) (int, bool) {
	p := &refP{b: b}
	if !p.value() {
		return 0, false
	}
	return p.i, true
}
