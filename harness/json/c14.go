package json

// H14-enc: for every subset of the public AppendFlags: error exactly when the default flags fail; EscapeHTML off ==
// encoding/json with SetEscapeHTML(false); SortMapKeys only permutes members (checked against both member orders for
// the catalogue's maps of at most two entries); TrustRawMessage changes nothing for valid raw messages.
func vfH_c14_enc() {
	sh := jshapes[vfShape]
	v := sh.mk()
	def, derr := Append(nil, v, EscapeHTML|SortMapKeys)
	wantEsc, okEsc := sh.want(v, true)
	wantRaw, okRaw := sh.want(v, false)
	vfAssert((derr == nil) == okEsc, "default-error-iff-encoding/json-fails")
	if derr == nil && okEsc {
		vfAssert(string(def) == string(wantEsc), "default==encoding/json")
	}
	for f := AppendFlags(0); f < 8; f++ {
		if f&TrustRawMessage != 0 && !okEsc {
			continue // TrustRawMessage only for values whose raw messages are valid JSON
		}
		out, err := Append(nil, v, f)
		vfAssert((err == nil) == (derr == nil), "flags-error-parity")
		if err != nil || derr != nil {
			continue
		}
		want, ok := wantEsc, okEsc
		if f&EscapeHTML == 0 {
			want, ok = wantRaw, okRaw
		}
		if !ok {
			continue
		}
		if f&SortMapKeys != 0 || !sh.hasMap {
			vfAssert(string(out) == string(want), "flags-bytes")
		} else {
			vfAssert(len(out) == len(want), "unsorted-same-length")
			alt := sh.wantAlt(v, f&EscapeHTML != 0)
			vfAssert(vfOr(string(out) == string(want), string(out) == string(alt)), "unsorted-is-a-permutation-of-members")
		}
	}
	vfCover("done")
}
