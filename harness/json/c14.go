package json

import (
	"math/big"
	"math/bits"
)

// H14-enc: for every subset of the public AppendFlags: error exactly when the default flags fail; EscapeHTML off ==
// encoding/json with SetEscapeHTML(false); SortMapKeys only permutes members (checked against both member orders for
// the catalogue's maps of at most two entries); TrustRawMessage changes nothing for valid raw messages.
func vfH_c14_enc() {
	sh := jshapes[vfShape]
	v := sh.mk()
	def, derr := Append(nil, v, EscapeHTML|SortMapKeys)
	wantEsc, okEsc := sh.want(v, true)
	wantRaw, okRaw := sh.want(v, false)
	vfAssert((derr == nil) == okEsc, "default-error-iff-encoding/json-fails")
	if derr == nil && okEsc {
		vfAssert(string(def) == string(wantEsc), "default==encoding/json")
	}
	for f := AppendFlags(0); f < 8; f++ {
		if f&TrustRawMessage != 0 && !okEsc {
			continue // TrustRawMessage only for values whose raw messages are valid JSON
		}
		out, err := Append(nil, v, f)
		vfAssert((err == nil) == (derr == nil), "flags-error-parity")
		if err != nil || derr != nil {
			continue
		}
		want, ok := wantEsc, okEsc
		if f&EscapeHTML == 0 {
			want, ok = wantRaw, okRaw
		}
		if !ok {
			continue
		}
		if f&SortMapKeys != 0 || !sh.hasMap {
			vfAssert(string(out) == string(want), "flags-bytes")
		} else {
			vfAssert(len(out) == len(want), "unsorted-same-length")
			alt := sh.wantAlt(v, f&EscapeHTML != 0)
			vfAssert(vfOr(string(out) == string(want), string(out) == string(alt)), "unsorted-is-a-permutation-of-members")
		}
	}
	vfCover("done")
}

func parseFlagsOf(f int) ParseFlags {
	var flags ParseFlags
	if f&1 != 0 {
		flags |= DontCopyString
	}
	if f&2 != 0 {
		flags |= DontCopyNumber
	}
	if f&4 != 0 {
		flags |= DontCopyRawMessage
	}
	if f&8 != 0 {
		flags |= DontMatchCaseInsensitiveStructFields
	}
	return flags
}

// H14-dec: parsing the default output with the subset vfFlags of DontCopyString/DontCopyNumber/DontCopyRawMessage/
// DontMatchCaseInsensitiveStructFields restores the value (observed through the canonical re-encoding), exactly as the
// flag-free parse does. The input is a private copy, so zero-copy results legitimately alias it and nothing else.
func vfH_c14_dec() {
	sh := jshapes[vfShape]
	v := sh.mk()
	doc, ok := sh.want(v, true)
	if !ok {
		return
	}
	in := append([]byte(nil), doc...)
	p := sh.newp()
	rem, err := Parse(in, p, parseFlagsOf(vfFlags))
	vfAssert(err == nil, "default-output-accepted-under-flags")
	if err != nil {
		return
	}
	vfAssert(len(rem) == 0, "no-remainder")
	doc2, err2 := Marshal(p)
	vfAssert(err2 == nil, "re-marshal-ok")
	if err2 == nil {
		vfAssert(string(doc2) == string(doc), "flags-restore-the-original-value")
	}
	for i := range doc {
		vfAssert(in[i] == doc[i], "input-not-modified")
	}
	vfCover("done")
}

// H14-num: UseNumber/UseBigInt/UseInt64/UseUint64 (all 16 subsets, vfFlags) select only the dynamic type of a number
// stored in an interface, in the documented precedence (UseUint64 > UseInt64 > UseBigInt > UseNumber > float64, the
// integer kinds only for integer literals that are in range), never its value.
//   vfMode 0: every valid JSON number literal of vfLen bytes
//   vfMode 1..6: 19/20-digit literals around the int64 and uint64 limits, the last two digits free
func vfH_c14_num() {
	var lit []byte
	switch vfMode {
	case 0:
		lit = vfBytes(vfLen)
		vfAssume(refIsNumber(string(lit)))
	default:
		tmpl := [...]string{"", "9223372036854775807", "-9223372036854775808", "18446744073709551615", "-18446744073709551615", "09223372036854775807"[1:], "-9223372036854775808"}[vfMode]
		lit = []byte(tmpl)
		n := len(lit)
		d1, d2 := vfByte(), vfByte()
		vfAssume(d1 >= '0' && d1 <= '9' && d2 >= '0' && d2 <= '9')
		lit[n-1], lit[n-2] = d1, d2
		if vfMode >= 5 { // one digit more or fewer than the limit
			if vfBool() {
				lit = append(lit, '0')
			} else {
				lit = lit[:n-1]
			}
		}
	}
	var flags ParseFlags
	if vfFlags&1 != 0 {
		flags |= UseNumber
	}
	if vfFlags&2 != 0 {
		flags |= UseBigInt
	}
	if vfFlags&4 != 0 {
		flags |= UseInt64
	}
	if vfFlags&8 != 0 {
		flags |= UseUint64
	}
	isInt := true
	for _, c := range lit {
		if c == '.' || c == 'e' || c == 'E' {
			isInt = false
		}
	}
	neg := lit[0] == '-'
	digits := lit
	if neg {
		digits = lit[1:]
	}
	fitsU := isInt && !neg && refFits(digits, "18446744073709551615")
	fitsI := isInt && ((neg && refFits(digits, "9223372036854775808")) || (!neg && refFits(digits, "9223372036854775807")))

	var x any
	in := append([]byte(nil), lit...)
	rem, err := Parse(in, &x, flags)
	vfAssert(err == nil && len(rem) == 0, "number-accepted")
	if err != nil {
		return
	}
	switch y := x.(type) {
	case uint64:
		vfCover("uint64")
		vfAssert(flags&UseUint64 != 0 && fitsU, "uint64-only-when-requested-and-in-range")
		if fitsU {
			vfAssert(y == refValue64(digits), "uint64-value")
		}
	case int64:
		vfCover("int64")
		vfAssert(flags&UseInt64 != 0 && fitsI && !(flags&UseUint64 != 0 && fitsU), "int64-only-when-requested,-in-range-and-not-preempted-by-uint64")
		if fitsI {
			u := refValue64(digits)
			if neg {
				u = -u
			}
			vfAssert(uint64(y) == u, "int64-value")
		}
	case Number:
		vfCover("Number")
		vfAssert(flags&UseNumber != 0, "Number-only-when-requested")
		vfAssert(!(flags&UseUint64 != 0 && fitsU) && !(flags&UseInt64 != 0 && fitsI) && !(flags&UseBigInt != 0 && isInt), "Number-has-lowest-precedence")
		vfAssert(string(y) == string(lit), "Number-text")
	case float64:
		vfCover("float64")
		vfAssert(!(flags&UseUint64 != 0 && fitsU) && !(flags&UseInt64 != 0 && fitsI) && !(flags&UseBigInt != 0 && isInt) && flags&UseNumber == 0, "float64-only-as-the-fallback")
	default:
		// *big.Int (math/big is executed, its value is compared through the decimal text)
		vfCover("big")
		vfAssert(flags&UseBigInt != 0 && isInt, "big.Int-only-when-requested-for-integers")
		vfAssert(!(flags&UseUint64 != 0 && fitsU) && !(flags&UseInt64 != 0 && fitsI), "big.Int-below-the-64-bit-kinds")
		b, isBig := x.(*big.Int)
		vfAssert(isBig, "dynamic-type-is-one-of-the-documented-five")
		if isBig && isInt {
			// reference value: 128-bit Horner evaluation of the digits
			var hi, lo uint64
			for _, c := range digits {
				h1, l1 := bits.Mul64(lo, 10)
				hi = hi*10 + h1
				var carry uint64
				lo, carry = bits.Add64(l1, uint64(c-'0'), 0)
				hi += carry
			}
			w := b.Bits()
			var gotLo, gotHi uint64
			if len(w) > 0 {
				gotLo = uint64(w[0])
			}
			if len(w) > 1 {
				gotHi = uint64(w[1])
			}
			vfAssert(len(w) <= 2 && gotLo == lo && gotHi == hi, "big.Int-magnitude")
			vfAssert((b.Sign() < 0) == (neg && (hi|lo) != 0), "big.Int-sign")
		}
	}
}

