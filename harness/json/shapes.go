package json

import (
	stdjson "encoding/json"
	"math"
	"strconv"
)

var vfShape, vfWide, vfFlags, vfRT int

// symStr: a symbolic string of n bytes; in round-trip harnesses (vfRT) restricted to ASCII because invalid UTF-8 is
// not preserved by any JSON encoder
func symStr(n int) string {
	s := vfString(n)
	if vfRT != 0 {
		for i := 0; i < n; i++ {
			vfAssume(s[i] < 0x80)
		}
	}
	return s
}

func wide(i int) bool { return (vfWide>>uint(i))&1 == 1 }

func i64(i int) int64 {
	if wide(i) {
		return int64(vfU64())
	}
	return int64(int8(vfByte()))
}
func u64(i int) uint64 {
	if wide(i) {
		return vfU64()
	}
	return uint64(vfByte())
}

// ---- reference scalars (DESIGN.md Appendix A.2/A.4), written for small values and short strings

const hexdigits = "0123456789abcdef"

// refQuote = encoding/json's string encoding (escapeHTML on or off)
func refQuote(dst []byte, s string, escapeHTML bool) []byte {
	dst = append(dst, '"')
	for i := 0; i < len(s); {
		c := s[i]
		if c < 0x80 {
			switch {
			case c == '"' || c == '\\':
				dst = append(dst, '\\', c)
			case c == '\b':
				dst = append(dst, '\\', 'b')
			case c == '\f':
				dst = append(dst, '\\', 'f')
			case c == '\n':
				dst = append(dst, '\\', 'n')
			case c == '\r':
				dst = append(dst, '\\', 'r')
			case c == '\t':
				dst = append(dst, '\\', 't')
			case c < 0x20 || (escapeHTML && (c == '<' || c == '>' || c == '&')):
				dst = append(dst, '\\', 'u', '0', '0', hexdigits[c>>4], hexdigits[c&0xF])
			default:
				dst = append(dst, c)
			}
			i++
			continue
		}
		// multi-byte: decode by hand (RFC 3629)
		n, r := refDecodeRune(s[i:])
		if r == 0xFFFD && n == 1 {
			dst = append(dst, '\\', 'u', 'f', 'f', 'f', 'd')
			i++
			continue
		}
		if r == 0x2028 || r == 0x2029 {
			dst = append(dst, '\\', 'u', '2', '0', '2', hexdigits[r&0xF])
			i += n
			continue
		}
		dst = append(dst, s[i:i+n]...)
		i += n
	}
	return append(dst, '"')
}

// refDecodeRune: size and value of the first UTF-8 sequence; (1, U+FFFD) for an invalid one
func refDecodeRune(s string) (int, rune) {
	c0 := s[0]
	switch {
	case c0 < 0x80:
		return 1, rune(c0)
	case c0 >= 0xC2 && c0 <= 0xDF:
		if len(s) >= 2 && s[1]&0xC0 == 0x80 {
			return 2, rune(c0&0x1F)<<6 | rune(s[1]&0x3F)
		}
	case c0 >= 0xE0 && c0 <= 0xEF:
		if len(s) >= 3 && s[1]&0xC0 == 0x80 && s[2]&0xC0 == 0x80 {
			r := rune(c0&0x0F)<<12 | rune(s[1]&0x3F)<<6 | rune(s[2]&0x3F)
			if r >= 0x800 && (r < 0xD800 || r > 0xDFFF) {
				return 3, r
			}
		}
	case c0 >= 0xF0 && c0 <= 0xF4:
		if len(s) >= 4 && s[1]&0xC0 == 0x80 && s[2]&0xC0 == 0x80 && s[3]&0xC0 == 0x80 {
			r := rune(c0&0x07)<<18 | rune(s[1]&0x3F)<<12 | rune(s[2]&0x3F)<<6 | rune(s[3]&0x3F)
			if r >= 0x10000 && r <= 0x10FFFF {
				return 4, r
			}
		}
	}
	return 1, 0xFFFD
}

// refInt appends the decimal text of n (reference: repeated division, used on small values; full-width values are
// checked by the digit-sum characterisation of H01-int)
func refInt(dst []byte, n int64) []byte {
	if n < 0 {
		dst = append(dst, '-')
		return refUint(dst, uint64(-n))
	}
	return refUint(dst, uint64(n))
}

func refUint(dst []byte, u uint64) []byte {
	var buf [20]byte
	i := len(buf)
	for {
		i--
		buf[i] = byte('0' + u%10)
		u /= 10
		if u == 0 {
			break
		}
	}
	return append(dst, buf[i:]...)
}

func refBool(dst []byte, b bool) []byte {
	if b {
		return append(dst, "true"...)
	}
	return append(dst, "false"...)
}

// ---- shapes (DESIGN.md 4.1): each has at most three symbolic scalars; want() is the expected encoding/json output,
// cross-checked against the real encoding/json at every native replay and in the self-test.

type jBasic struct {
	A int    `json:"a"`
	B string `json:"b,omitempty"`
}

type jPtrs struct {
	C *int `json:"c"`
	D bool
	P **int8 `json:"p,omitempty"`
	Fl float64 `json:"fl,omitempty"`
	Fs float32 `json:"fs,omitempty"`
}

type jStrTag struct {
	E uint8  `json:"e,string"`
	F int8   `json:",string"`
	G bool   `json:"g,string,omitempty"`
	S string `json:"s,string"`
	P *int8  `json:"p,string"`
}

type jSlices struct {
	L []int8
	B []byte
	A [2]uint8
}

type jMaps struct {
	M map[string]int8
	N map[int8]bool `json:"n,omitempty"`
}

type jEmb struct {
	X int8 `json:"x"`
	Y string
}

type JEmbP struct {
	Z int8 `json:"z,omitempty"`
}

type jNested struct {
	jEmb
	*JEmbP
	In jEmb  `json:"in"`
	Pn *jEmb `json:"pn"`
	u  int
	Sk int8 `json:"-"`
}

type jIface struct {
	I any `json:"i"`
	O any `json:"o,omitempty"`
}

type jNumRaw struct {
	N Number
	R RawMessage `json:"r"`
}

type jMarshalerV struct {
	b    []byte
	fail bool
}

type jFail struct{}

func (jFail) Error() string { return "MarshalJSON failed" }

func (m jMarshalerV) MarshalJSON() ([]byte, error) {
	if m.fail {
		return nil, jFail{}
	}
	return m.b, nil
}

type jTextV struct{ s string }

func (m jTextV) MarshalText() ([]byte, error) { return []byte(m.s), nil }

type jMarsh struct {
	M jMarshalerV `json:"m"`
	T jTextV      `json:"t"`
}

type jShape struct {
	name    string
	hasMap  bool
	mk      func() any                                  // symbolic value
	want    func(v any, escapeHTML bool) ([]byte, bool) // expected encoding/json output; ok=false: encoding/json fails
	wantAlt func(v any, escapeHTML bool) []byte         // maps: the output with the members in the other order
	ptr     func(v any) any                             // &v
	noPtrParity bool                                    // Marshal(v) and Marshal(&v) legitimately differ (pointer-receiver methods)
	newp    func() any                                  // pointer to a zero value
}

func refEmb(b []byte, v jEmb, esc bool) []byte {
	b = append(b, `{"x":`...)
	b = refInt(b, int64(v.X))
	b = append(b, `,"Y":`...)
	b = refQuote(b, v.Y, esc)
	return append(b, '}')
}

var jshapes = []jShape{
	{name: "basic", ptr: func(v any) any { x := v.(jBasic); return &x }, newp: func() any { return new(jBasic) },
		mk: func() any { return jBasic{A: int(i64(0)), B: symStr(vfLen)} },
		want: func(x any, esc bool) ([]byte, bool) {
			v := x.(jBasic)
			b := append([]byte(nil), `{"a":`...)
			b = refInt(b, int64(v.A))
			if v.B != "" {
				b = append(b, `,"b":`...)
				b = refQuote(b, v.B, esc)
			}
			return append(b, '}'), true
		}},
	{name: "ptrs", ptr: func(v any) any { x := v.(jPtrs); return &x }, newp: func() any { return new(jPtrs) },
		mk: func() any {
			v := jPtrs{D: vfBool()}
			fsel := 0
			if vfRT == 0 { // not in round-trip units: float text is an opaque stub that cannot be decoded again
				fsel = vfIntIn(0, 3)
			}
			switch fsel { // floats: only the omitempty decision is observed (their text is an opaque stub)
			case 1:
				v.Fl = math.Copysign(0, -1) // negative zero is zero: omitted
				v.Fs = float32(math.Copysign(0, -1))
			case 2:
				v.Fl = 1.5
			case 3:
				v.Fs = -2.25
			}
			if vfBool() {
				x := int(i64(0))
				v.C = &x
			}
			if vfBool() {
				var q *int8
				if vfRT != 0 || vfBool() { // a pointer to a nil pointer does not survive a round trip (it decodes to nil)
					y := int8(vfByte())
					q = &y
				}
				v.P = &q
			}
			return v
		},
		want: func(x any, esc bool) ([]byte, bool) {
			v := x.(jPtrs)
			b := append([]byte(nil), `{"c":`...)
			if v.C == nil {
				b = append(b, "null"...)
			} else {
				b = refInt(b, int64(*v.C))
			}
			b = append(b, `,"D":`...)
			b = refBool(b, v.D)
			if v.P != nil {
				b = append(b, `,"p":`...)
				if *v.P == nil {
					b = append(b, "null"...)
				} else {
					b = refInt(b, int64(**v.P))
				}
			}
			if v.Fl != 0 {
				b = append(b, `,"fl":`...)
				b = strconv.AppendFloat(b, v.Fl, 'f', -1, 64)
			}
			if v.Fs != 0 {
				b = append(b, `,"fs":`...)
				b = strconv.AppendFloat(b, float64(v.Fs), 'f', -1, 32)
			}
			return append(b, '}'), true
		}},
	{name: "strtag", ptr: func(v any) any { x := v.(jStrTag); return &x }, newp: func() any { return new(jStrTag) },
		mk: func() any {
			v := jStrTag{E: vfByte(), F: int8(vfByte()), G: vfBool(), S: symStr(vfLen)}
			if vfBool() {
				x := int8(vfByte())
				v.P = &x
			}
			return v
		},
		want: func(x any, esc bool) ([]byte, bool) {
			v := x.(jStrTag)
			b := append([]byte(nil), `{"e":"`...)
			b = refUint(b, uint64(v.E))
			b = append(b, `","F":"`...)
			b = refInt(b, int64(v.F))
			b = append(b, '"')
			if v.G {
				b = append(b, `,"g":"true"`...)
			}
			b = append(b, `,"s":`...)
			inner := refQuote(nil, v.S, esc)
			b = refQuote(b, string(inner), esc)
			b = append(b, `,"p":`...)
			if v.P == nil {
				b = append(b, "null"...) // a nil pointer is null, not the string "null"
			} else {
				b = append(b, '"')
				b = refInt(b, int64(*v.P))
				b = append(b, '"')
			}
			return append(b, '}'), true
		}},
	{name: "slices", ptr: func(v any) any { x := v.(jSlices); return &x }, newp: func() any { return new(jSlices) },
		mk: func() any {
			v := jSlices{A: [2]uint8{vfByte(), 200}}
			switch vfIntIn(0, 2) {
			case 1:
				v.L = []int8{}
			case 2:
				v.L = []int8{int8(vfByte()), 7}
			}
			if vfBool() {
				v.B = vfBytes(vfLen)
			}
			return v
		},
		want: func(x any, esc bool) ([]byte, bool) {
			v := x.(jSlices)
			b := append([]byte(nil), `{"L":`...)
			if v.L == nil {
				b = append(b, "null"...)
			} else {
				b = append(b, '[')
				for i, e := range v.L {
					if i > 0 {
						b = append(b, ',')
					}
					b = refInt(b, int64(e))
				}
				b = append(b, ']')
			}
			b = append(b, `,"B":`...)
			if v.B == nil {
				b = append(b, "null"...)
			} else {
				b = append(b, '"')
				b = refBase64(b, v.B)
				b = append(b, '"')
			}
			b = append(b, `,"A":[`...)
			b = refUint(b, uint64(v.A[0]))
			b = append(b, ',')
			b = refUint(b, uint64(v.A[1]))
			return append(b, `]}`...), true
		}},
	{name: "maps", hasMap: true, wantAlt: mapsWantAlt, ptr: func(v any) any { x := v.(jMaps); return &x }, newp: func() any { return new(jMaps) },
		mk: func() any {
			v := jMaps{}
			n := vfIntIn(0, 2)
			if n > 0 || vfBool() {
				v.M = map[string]int8{}
			}
			if n > 0 {
				v.M[symStr(vfLen)] = int8(vfByte())
			}
			if n > 1 {
				v.M["m"] = 5 // the symbolic key sorts before, after or replaces this one
			}
			if vfBool() {
				v.N = map[int8]bool{int8(vfByte()): true}
			}
			return v
		},
		want: func(x any, esc bool) ([]byte, bool) {
			v := x.(jMaps)
			b := append([]byte(nil), `{"M":`...)
			if v.M == nil {
				b = append(b, "null"...)
			} else {
				// sorted by key (at most two entries)
				var ks []string
				for k := range v.M {
					ks = append(ks, k)
				}
				if len(ks) == 2 && ks[1] < ks[0] {
					ks[0], ks[1] = ks[1], ks[0]
				}
				b = append(b, '{')
				for i, k := range ks {
					if i > 0 {
						b = append(b, ',')
					}
					b = refQuote(b, k, esc)
					b = append(b, ':')
					b = refInt(b, int64(v.M[k]))
				}
				b = append(b, '}')
			}
			if len(v.N) > 0 {
				b = append(b, `,"n":{`...)
				for k, e := range v.N {
					b = append(b, '"')
					b = refInt(b, int64(k))
					b = append(b, `":`...)
					b = refBool(b, e)
				}
				b = append(b, '}')
			}
			return append(b, '}'), true
		}},
	{name: "nested", ptr: func(v any) any { x := v.(jNested); return &x }, newp: func() any { return new(jNested) },
		mk: func() any {
			v := jNested{jEmb: jEmb{X: int8(vfByte()), Y: "y"}, In: jEmb{X: 3}, u: 7, Sk: 9}
			if vfBool() {
				v.JEmbP = &JEmbP{Z: int8(vfByte())}
			}
			if vfBool() {
				v.Pn = &jEmb{Y: symStr(vfLen)}
			}
			return v
		},
		want: func(x any, esc bool) ([]byte, bool) {
			v := x.(jNested)
			b := append([]byte(nil), `{"x":`...)
			b = refInt(b, int64(v.X))
			b = append(b, `,"Y":`...)
			b = refQuote(b, v.Y, esc)
			if v.JEmbP != nil && v.JEmbP.Z != 0 {
				b = append(b, `,"z":`...)
				b = refInt(b, int64(v.JEmbP.Z))
			}
			b = append(b, `,"in":`...)
			b = refEmb(b, v.In, esc)
			b = append(b, `,"pn":`...)
			if v.Pn == nil {
				b = append(b, "null"...)
			} else {
				b = refEmb(b, *v.Pn, esc)
			}
			return append(b, '}'), true
		}},
	{name: "iface", ptr: func(v any) any { x := v.(jIface); return &x }, newp: func() any { return new(jIface) },
		mk: func() any {
			v := jIface{}
			k := vfIntIn(0, 5)
			if vfRT != 0 && (k == 1 || k == 3) {
				k = 0 // numbers in interfaces decode to float64, whose text is an opaque stub
			}
			switch k {
			case 1:
				v.I = int(i64(0))
			case 2:
				v.I = symStr(vfLen)
			case 3:
				x := int8(vfByte())
				v.I = &x
			case 4:
				v.I = []any{vfBool(), nil}
			case 5:
				v.I = map[string]any{"k": symStr(vfLen)}
			}
			if vfRT == 0 {
				switch vfIntIn(0, 2) {
				case 1:
					v.O = (*int8)(nil) // a non-nil interface holding a nil pointer is not "empty": encoding/json writes null
				case 2:
					v.O = false // neither is an interface holding a zero value
				}
			}
			return v
		},
		want: func(x any, esc bool) ([]byte, bool) {
			v := x.(jIface)
			b := append([]byte(nil), `{"i":`...)
			switch y := v.I.(type) {
			case nil:
				b = append(b, "null"...)
			case int:
				b = refInt(b, int64(y))
			case string:
				b = refQuote(b, y, esc)
			case *int8:
				b = refInt(b, int64(*y))
			case []any:
				b = append(b, '[')
				b = refBool(b, y[0].(bool))
				b = append(b, `,null]`...)
			case map[string]any:
				b = append(b, `{"k":`...)
				b = refQuote(b, y["k"].(string), esc)
				b = append(b, '}')
			}
			switch y := v.O.(type) {
			case *int8:
				if y == nil {
					b = append(b, `,"o":null`...)
				}
			case bool:
				b = append(b, `,"o":`...)
				b = refBool(b, y)
			}
			return append(b, '}'), true
		}},
	{name: "numraw", ptr: func(v any) any { x := v.(jNumRaw); return &x }, newp: func() any { return new(jNumRaw) },
		mk: func() any {
			v := jNumRaw{N: Number(vfString(vfLen))}
			if vfBool() {
				v.R = RawMessage(vfBytes(vfLen2))
			}
			return v
		},
		want: func(x any, esc bool) ([]byte, bool) {
			v := x.(jNumRaw)
			n := string(v.N)
			if n == "" {
				n = "0"
			}
			if !refIsNumber(n) {
				return nil, false
			}
			b := append([]byte(nil), `{"N":`...)
			b = append(b, n...)
			b = append(b, `,"r":`...)
			if v.R == nil {
				b = append(b, "null"...)
			} else {
				if !refValid(v.R) {
					return nil, false
				}
				b = refCompact(b, v.R, esc)
			}
			return append(b, '}'), true
		}},
	{name: "marsh", ptr: func(v any) any { x := v.(jMarsh); return &x }, newp: func() any { return new(jMarsh) },
		mk: func() any {
			return jMarsh{M: jMarshalerV{b: vfBytes(vfLen), fail: vfBool()}, T: jTextV{s: symStr(vfLen)}}
		},
		want: func(x any, esc bool) ([]byte, bool) {
			v := x.(jMarsh)
			if v.M.fail || !refValid(v.M.b) {
				return nil, false
			}
			b := append([]byte(nil), `{"m":`...)
			b = refCompact(b, v.M.b, esc)
			b = append(b, `,"t":`...)
			b = refQuote(b, v.T.s, esc)
			return append(b, '}'), true
		}},
	{name: "fastmaps", hasMap: true, wantAlt: func(x any, esc bool) []byte { return fastWant(x.(jFast), esc, true) },
		ptr: func(v any) any { x := v.(jFast); return &x }, newp: func() any { return new(jFast) },
		mk: func() any {
			v := jFast{}
			which := vfIntIn(0, 4)
			n := vfIntIn(0, 2)
			if n == 0 && vfBool() {
				return v // every map nil
			}
			k1, k2 := "m", symStr(vfLen)
			switch which {
			case 0:
				v.S = map[string]string{}
				if n > 0 {
					v.S[k1] = symStr(1)
				}
				if n > 1 {
					v.S[k2] = "<"
				}
			case 1:
				v.L = map[string][]string{}
				if n > 0 {
					switch vfIntIn(0, 2) {
					case 0:
						v.L[k1] = nil
					case 1:
						v.L[k1] = []string{}
					default:
						v.L[k1] = []string{"a", symStr(1)}
					}
				}
				if n > 1 {
					if vfBool() {
						v.L[k2] = nil
					} else {
						v.L[k2] = []string{"&"}
					}
				}
			case 2:
				v.B = map[string]bool{}
				if n > 0 {
					v.B[k1] = vfBool()
				}
				if n > 1 {
					v.B[k2] = vfBool()
				}
			case 3:
				v.I = map[string]any{}
				if n > 0 {
					switch vfIntIn(0, 3) {
					case 0:
						v.I[k1] = nil
					case 1:
						v.I[k1] = symStr(1)
					case 2:
						v.I[k1] = []string(nil)
					default:
						v.I[k1] = jMarshalerV{fail: true} // a value that cannot be encoded: Append must fail under every flag subset
					}
				}
				if n > 1 {
					v.I[k2] = vfBool()
				}
			case 4:
				v.R = map[string]RawMessage{}
				if n > 0 {
					switch vfIntIn(0, 2) {
					case 0:
						v.R[k1] = RawMessage(`[1, "<"]`)
					case 1:
						v.R[k1] = nil
					default:
						v.R[k1] = RawMessage(`{`) // not valid JSON: every flag subset that does not trust raw messages must fail
					}
				}
				if n > 1 {
					v.R[k2] = RawMessage(`true`)
				}
			}
			return v
		},
		want: func(x any, esc bool) ([]byte, bool) {
			v := x.(jFast)
			for _, r := range v.R {
				if r != nil && !refValid(r) {
					return nil, false
				}
			}
			for _, x := range v.I {
				if _, bad := x.(jMarshalerV); bad {
					return nil, false
				}
			}
			return fastWant(v, esc, false), true
		}},
	{name: "bytes", ptr: func(v any) any { x := v.([]byte); return &x }, newp: func() any { return new([]byte) },
		mk: func() any {
			if vfBool() {
				return []byte(nil)
			}
			return vfBytes(vfLen)
		},
		want: func(x any, esc bool) ([]byte, bool) {
			v := x.([]byte)
			if v == nil {
				return []byte("null"), true
			}
			b := append([]byte(nil), '"')
			b = refBase64(b, v)
			return append(b, '"'), true
		}},
	{name: "addrV", noPtrParity: true, ptr: func(v any) any { x := v.(jArrs); return &x }, newp: func() any { return new(jArrs) },
		mk:   func() any { return mkArrs() },
		want: func(x any, esc bool) ([]byte, bool) { return arrsWant(x.(jArrs), false), true }},
	{name: "addrP", ptr: func(v any) any { x := v.(*jArrs); return &x }, newp: func() any { return new(*jArrs) },
		mk:   func() any { v := mkArrs(); return &v },
		want: func(x any, esc bool) ([]byte, bool) { return arrsWant(*x.(*jArrs), true), true }},
}

// ---- the five specialised map codecs (map[string]string, map[string][]string, map[string]bool, map[string]any,
// map[string]RawMessage), each with a sorted and an unsorted path
type jFast struct {
	S map[string]string
	L map[string][]string
	B map[string]bool
	I map[string]any
	R map[string]RawMessage
}

// keys2: the (at most two) keys of m in ascending order, or descending when rev.
func keys2[V any](m map[string]V, rev bool) []string {
	var ks []string
	for k := range m {
		ks = append(ks, k)
	}
	if len(ks) == 2 && ((ks[1] < ks[0]) != rev) {
		ks[0], ks[1] = ks[1], ks[0]
	}
	return ks
}

func refStrs(b []byte, l []string, esc bool) []byte {
	if l == nil {
		return append(b, "null"...)
	}
	b = append(b, '[')
	for i, e := range l {
		if i > 0 {
			b = append(b, ',')
		}
		b = refQuote(b, e, esc)
	}
	return append(b, ']')
}

func fastWant(v jFast, esc bool, rev bool) []byte {
	b := append([]byte(nil), `{"S":`...)
	if v.S == nil {
		b = append(b, "null"...)
	} else {
		b = append(b, '{')
		for i, k := range keys2(v.S, rev) {
			if i > 0 {
				b = append(b, ',')
			}
			b = refQuote(b, k, esc)
			b = append(b, ':')
			b = refQuote(b, v.S[k], esc)
		}
		b = append(b, '}')
	}
	b = append(b, `,"L":`...)
	if v.L == nil {
		b = append(b, "null"...)
	} else {
		b = append(b, '{')
		for i, k := range keys2(v.L, rev) {
			if i > 0 {
				b = append(b, ',')
			}
			b = refQuote(b, k, esc)
			b = append(b, ':')
			b = refStrs(b, v.L[k], esc)
		}
		b = append(b, '}')
	}
	b = append(b, `,"B":`...)
	if v.B == nil {
		b = append(b, "null"...)
	} else {
		b = append(b, '{')
		for i, k := range keys2(v.B, rev) {
			if i > 0 {
				b = append(b, ',')
			}
			b = refQuote(b, k, esc)
			b = append(b, ':')
			b = refBool(b, v.B[k])
		}
		b = append(b, '}')
	}
	b = append(b, `,"I":`...)
	if v.I == nil {
		b = append(b, "null"...)
	} else {
		b = append(b, '{')
		for i, k := range keys2(v.I, rev) {
			if i > 0 {
				b = append(b, ',')
			}
			b = refQuote(b, k, esc)
			b = append(b, ':')
			switch y := v.I[k].(type) {
			case nil:
				b = append(b, "null"...)
			case string:
				b = refQuote(b, y, esc)
			case bool:
				b = refBool(b, y)
			case []string:
				b = refStrs(b, y, esc)
			}
		}
		b = append(b, '}')
	}
	b = append(b, `,"R":`...)
	if v.R == nil {
		b = append(b, "null"...)
	} else {
		b = append(b, '{')
		for i, k := range keys2(v.R, rev) {
			if i > 0 {
				b = append(b, ',')
			}
			b = refQuote(b, k, esc)
			b = append(b, ':')
			if v.R[k] == nil {
				b = append(b, "null"...)
			} else {
				b = refCompact(b, v.R[k], esc)
			}
		}
		b = append(b, '}')
	}
	return append(b, '}')
}

// ---- addressability: a MarshalJSON method on the pointer receiver is used exactly where encoding/json can take the
// element's address (slice elements and pointees always; fields and array elements only under an addressable parent;
// map values never).
type jPM struct{ v int8 }

func (m *jPM) MarshalJSON() ([]byte, error) { return refInt(nil, int64(m.v)), nil }

type jArrs struct {
	A  [2]jPM
	S  []jPM
	M  map[string]jPM
	P  *jPM
	V  jPM
	AP [1]*jPM
	N  struct{ W jPM }
}

func mkArrs() jArrs {
	v := jArrs{A: [2]jPM{{int8(vfByte())}, {2}}, V: jPM{6}}
	if vfBool() {
		v.S = []jPM{{int8(vfByte())}}
	}
	if vfBool() {
		v.M = map[string]jPM{"k": {4}}
	}
	if vfBool() {
		v.P = &jPM{5}
		v.AP[0] = &jPM{int8(vfByte())}
	}
	v.N.W.v = 9
	return v
}

func arrsWant(v jArrs, addressable bool) []byte {
	pm := func(b []byte, m jPM, addr bool) []byte {
		if addr {
			return refInt(b, int64(m.v))
		}
		return append(b, "{}"...)
	}
	b := append([]byte(nil), `{"A":[`...)
	b = pm(b, v.A[0], addressable)
	b = append(b, ',')
	b = pm(b, v.A[1], addressable)
	b = append(b, `],"S":`...)
	if v.S == nil {
		b = append(b, "null"...)
	} else {
		b = append(b, '[')
		for i := range v.S {
			if i > 0 {
				b = append(b, ',')
			}
			b = pm(b, v.S[i], true)
		}
		b = append(b, ']')
	}
	b = append(b, `,"M":`...)
	if v.M == nil {
		b = append(b, "null"...)
	} else {
		b = append(b, `{"k":{}}`...)
	}
	b = append(b, `,"P":`...)
	if v.P == nil {
		b = append(b, "null"...)
	} else {
		b = pm(b, *v.P, true)
	}
	b = append(b, `,"V":`...)
	b = pm(b, v.V, addressable)
	b = append(b, `,"AP":[`...)
	if v.AP[0] == nil {
		b = append(b, "null"...)
	} else {
		b = pm(b, *v.AP[0], true)
	}
	b = append(b, `],"N":{"W":`...)
	b = pm(b, v.N.W, addressable)
	return append(b, `}}`...)
}

func mapsWantAlt(x any, esc bool) []byte {
	v := x.(jMaps)
	b := append([]byte(nil), `{"M":`...)
	if v.M == nil {
		b = append(b, "null"...)
	} else {
		var ks []string
		for k := range v.M {
			ks = append(ks, k)
		}
		if len(ks) == 2 && ks[1] > ks[0] { // reverse of sorted
			ks[0], ks[1] = ks[1], ks[0]
		}
		b = append(b, '{')
		for i, k := range ks {
			if i > 0 {
				b = append(b, ',')
			}
			b = refQuote(b, k, esc)
			b = append(b, ':')
			b = refInt(b, int64(v.M[k]))
		}
		b = append(b, '}')
	}
	if len(v.N) > 0 {
		b = append(b, `,"n":{`...)
		for k, e := range v.N {
			b = append(b, '"')
			b = refInt(b, int64(k))
			b = append(b, `":`...)
			b = refBool(b, e)
		}
		b = append(b, '}')
	}
	return append(b, '}')
}

// refIsNumber: encoding/json's isValidNumber (the JSON number grammar, whole string)
func refIsNumber(s string) bool {
	p := &refP{b: []byte(s)}
	if len(s) == 0 {
		return false
	}
	if !p.num() {
		return false
	}
	return p.i == len(s)
}

const b64std = "ABCDEFGHIJKLMNOPQRSTUVWXYZabcdefghijklmnopqrstuvwxyz0123456789+/"

// refBase64: RFC 4648 standard alphabet with padding
func refBase64(dst []byte, src []byte) []byte {
	for len(src) >= 3 {
		v := uint(src[0])<<16 | uint(src[1])<<8 | uint(src[2])
		dst = append(dst, b64std[v>>18&63], b64std[v>>12&63], b64std[v>>6&63], b64std[v&63])
		src = src[3:]
	}
	switch len(src) {
	case 1:
		v := uint(src[0]) << 16
		dst = append(dst, b64std[v>>18&63], b64std[v>>12&63], '=', '=')
	case 2:
		v := uint(src[0])<<16 | uint(src[1])<<8
		dst = append(dst, b64std[v>>18&63], b64std[v>>12&63], b64std[v>>6&63], '=')
	}
	return dst
}

// refCompact: encoding/json's compact(+HTML escaping) of a VALID document: whitespace outside strings is dropped,
// inside strings < > & and U+2028/9 are escaped when escapeHTML is set
func refCompact(dst []byte, src []byte, esc bool) []byte {
	inStr := false
	for i := 0; i < len(src); i++ {
		c := src[i]
		if inStr {
			if c == '\\' {
				dst = append(dst, c, src[i+1])
				i++
				continue
			}
			if c == '"' {
				inStr = false
			}
			if esc && (c == '<' || c == '>' || c == '&') {
				dst = append(dst, '\\', 'u', '0', '0', hexdigits[c>>4], hexdigits[c&0xF])
				continue
			}
			if esc && c == 0xE2 && i+2 < len(src) && src[i+1] == 0x80 && src[i+2]&^1 == 0xA8 {
				dst = append(dst, '\\', 'u', '2', '0', '2', hexdigits[src[i+2]&0xF])
				i += 2
				continue
			}
			dst = append(dst, c)
			continue
		}
		switch c {
		case ' ', '\t', '\n', '\r':
			continue
		case '"':
			inStr = true
		}
		dst = append(dst, c)
	}
	return dst
}

func checkModel(v any, want []byte, wantOK bool, esc bool) {
	if vfNative() {
		var got []byte
		var err error
		if esc {
			got, err = stdjson.Marshal(v)
		} else {
			var sb vfSinkBuf
			e := stdjson.NewEncoder(&sb)
			e.SetEscapeHTML(false)
			err = e.Encode(v)
			got = sb.b
			if len(got) > 0 && got[len(got)-1] == '\n' {
				got = got[:len(got)-1]
			}
		}
		if (err == nil) != wantOK || (wantOK && string(got) != string(want)) {
			vfModelBug("expected-output-model != encoding/json: " + string(got) + " vs " + string(want))
		}
	}
}

type vfFailWriter struct{ n int }

type vfWriteError struct{}

func (vfWriteError) Error() string { return "write failed" }

func (w *vfFailWriter) Write(p []byte) (int, error) { w.n++; return 0, vfWriteError{} }

type vfSinkBuf struct{ b []byte }

func (s *vfSinkBuf) Write(p []byte) (int, error) { s.b = append(s.b, p...); return len(p), nil }

// H01-shape: Marshal / Append(default flags) / Encoder.Encode(EscapeHTML on|off) == encoding/json, byte for byte,
// error exactly when encoding/json fails.
func vfH_c01_shape() {
	sh := jshapes[vfShape]
	v := sh.mk()
	esc := vfFlags&1 == 0
	want, wantOK := sh.want(v, esc)
	checkModel(v, want, wantOK, esc)
	var got []byte
	var err error
	switch vfMode {
	case 0:
		vfAssume(esc)
		got, err = Marshal(v)
	case 1:
		vfAssume(esc)
		got, err = Append(nil, v, EscapeHTML|SortMapKeys)
	case 3:
		// a writer that fails: Encode reports the write error (as encoding/json does), at once and on every later call
		if !wantOK {
			return
		}
		fw := &vfFailWriter{}
		e := NewEncoder(fw)
		e.SetEscapeHTML(esc)
		err1 := e.Encode(v)
		vfAssert(err1 != nil, "Encode-reports-the-write-error")
		err2 := e.Encode(v)
		vfAssert(err2 != nil, "Encode-keeps-reporting-the-write-error")
		if vfNative() {
			se := stdjson.NewEncoder(&vfFailWriter{})
			if se.Encode(v) == nil {
				vfModelBug("encoding/json.Encoder does not report write errors")
			}
		}
		vfCover("done")
		return
	default:
		var sb vfSinkBuf
		e := NewEncoder(&sb)
		e.SetEscapeHTML(esc)
		err = e.Encode(v)
		got = sb.b
		if err == nil {
			vfAssert(len(got) > 0 && got[len(got)-1] == '\n', "Encode-appends-newline")
			if len(got) > 0 {
				got = got[:len(got)-1]
			}
		}
	}
	vfAssert((err == nil) == wantOK, "error-iff-encoding/json-fails")
	if err == nil && wantOK {
		vfAssert(string(got) == string(want), "bytes==encoding/json")
	}
	vfCover("done")
}
