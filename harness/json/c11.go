package json

import "io"

// chunkReader delivers data[:end] in chunks whose sizes cycle through sizes[] (0 = a zero-length read, never twice in
// a row), then fails with err; withData returns the final bytes together with the error.
type chunkReader struct {
	data     []byte
	end      int
	pos      int
	sizes    [3]int
	k        int
	lastZero bool
	err      error
	withData bool
}

func (c *chunkReader) Read(p []byte) (int, error) {
	if c.pos >= c.end {
		return 0, c.err
	}
	n := c.sizes[c.k%3]
	c.k++
	if n == 0 {
		if c.lastZero {
			n = 1
		} else {
			c.lastZero = true
			return 0, nil
		}
	}
	c.lastZero = false
	if n > len(p) {
		n = len(p)
	}
	if c.pos+n > c.end {
		n = c.end - c.pos
	}
	copy(p, c.data[c.pos:c.pos+n])
	c.pos += n
	if c.withData && c.pos == c.end {
		return n, c.err
	}
	return n, nil
}

type c11other struct{}

func (c11other) Error() string { return "reader failed" }

// refNext: the next value of the stream s[i:] as encoding/json's Decoder sees it.
// status: 0 value [start,end), 1 clean end of input, 2 syntax error, 3 input ends inside a value
func refNext(s []byte, i int, eof bool) (status, start, end int) {
	p := &refP{b: s, i: i}
	p.ws()
	if p.i >= len(s) {
		return 1, p.i, p.i
	}
	start = p.i
	// is a complete valid value present?
	q := &refP{b: s, i: start}
	if q.value() {
		c := s[start]
		selfDelimiting := c == '{' || c == '['
		if selfDelimiting || q.i < len(s) || eof {
			// numbers/literals/strings need a following byte (or EOF) to be known complete
			if !selfDelimiting && q.i < len(s) && (c == '-' || (c >= '0' && c <= '9')) {
				// a number followed directly by a character that cannot follow a value is a syntax error only when
				// that character is read; encoding/json reports the number first
			}
			return 0, start, q.i
		}
		return 3, start, len(s)
	}
	// no complete value: either a syntax error or a truncated value. It is truncated when some extension is valid:
	// approximated by "every proper prefix check": the prefix scanned without error up to the end of input
	if refPrefixOK(s[start:]) {
		return 3, start, len(s)
	}
	return 2, start, start
}

// refPrefixOK: b is a proper prefix of some valid JSON value (the scanner reaches the end of b without an error)
func refPrefixOK(b []byte) bool {
	// try all completions of bounded length over a small alphabet of closers
	closers := []string{"", "\"", "0", "e", "ue", "rue", "se", "lse", "alse", "l", "ll", "ull", "]", "}", "\"]", "\"}", "0]", "\":0}", ":0}", "1]", "\"\"]", "\"\":0}", "0}", "00", "000", "0000\"", "000\"", "00\"", "0\"", "n\""}
	for _, c := range closers {
		t := append(append([]byte(nil), b...), c...)
		if len(c) > 0 {
			p := &refP{b: t}
			if p.value() && p.i == len(t) {
				return true
			}
		}
	}
	return false
}

// H11-small: a short free byte stream through the Decoder with symbolic chunk sizes, optional zero-length reads, and a
// terminal error (io.EOF or another error, with or without data) at a symbolic offset: the sequence of Decode results
// equals the reference split of the delivered bytes; InputOffset is monotone and lies between the end of the value
// just returned and the start of the next; Buffered() ++ unread remainder == unconsumed input.
func vfH_c11_small() {
	n := vfLen
	data := vfBytes(n)
	end := vfIntIn(0, n)
	r := &chunkReader{data: data, end: end}
	r.sizes = [3]int{vfIntIn(0, 2), vfIntIn(1, 3), 2}
	if n <= 3 {
		// zero-length reads also AFTER a partial value has been buffered (streams of 4 bytes keep the fixed third size:
		// the product with 4 free bytes was not run to completion in the time available)
		r.sizes[2] = vfIntIn(0, 2)
	}
	eof := vfBool()
	if eof {
		r.err = io.EOF
	} else {
		r.err = c11other{}
	}
	r.withData = vfBool()
	s := data[:end]
	dec := NewDecoder(r)
	pos := 0
	var lastOff int64
	for k := 0; k <= n+1; k++ {
		var v RawMessage
		err := dec.Decode(&v)
		off := dec.InputOffset()
		vfAssert(off >= lastOff, "InputOffset-monotone")
		vfAssert(off <= int64(end), "InputOffset-within-input")
		lastOff = off
		st, vs, ve := refNext(s, pos, eof)
		switch st {
		case 0:
			vfCover("value")
			vfAssert(err == nil, "value-delivered")
			if err != nil {
				return
			}
			vfAssert(string(v) == string(s[vs:ve]), "value-bytes")
			vfAssert(off >= int64(ve), "InputOffset-after-value")
			// start of the next value
			q := &refP{b: s, i: ve}
			q.ws()
			vfAssert(off <= int64(q.i), "InputOffset-before-next-value")
			pos = ve
		case 1:
			vfCover("clean-end")
			if eof {
				vfAssert(err == io.EOF, "clean-end-is-io.EOF")
			} else {
				vfAssert(err != nil && err != io.EOF, "reader-error-reported")
			}
			return
		case 2:
			vfCover("syntax-error")
			vfAssert(err != nil && err != io.EOF, "syntax-error-reported")
			return
		case 3:
			vfCover("truncated")
			if !eof && err == nil {
				// the reader failed with its own error right behind a complete scalar: whether that scalar counts as
				// delivered is not fixed by the property; it must then be the reference value
				q := &refP{b: s, i: vs}
				if q.value() && q.i == len(s) {
					vfAssert(string(v) == string(s[vs:]), "value-bytes")
					pos = len(s)
					continue
				}
			}
			vfAssert(err != nil && err != io.EOF, "error-inside-a-value-is-not-io.EOF")
			return
		}
	}
	vfAssert(false, "decoder-terminates")
}

// H11-large: values around the 32 KiB buffer boundary. Stream = a string value of vfLen2 'a's, a space, a token
// (vfMode: false, true, null, 12345, "x\"y", [1,2]) that starts vfLen2+3 bytes in, a space and 7; delivered in 4096-byte
// reads. Every Decode returns exactly these values, then io.EOF; InputOffset is exact after each value.
func vfH_c11_large() {
	pad := vfLen2
	tokens := []string{"false", "true", "null", "12345", `"x\"y"`, "[1,2]", `{"k":"\"v"}`}
	tok := tokens[vfMode]
	var stream []byte
	stream = append(stream, '"')
	for i := 0; i < pad; i++ {
		stream = append(stream, 'a')
	}
	stream = append(stream, '"', ' ')
	for i := 0; i < vfShape; i++ { // vfShape additional spaces: a whitespace run that can end exactly at a buffer fill
		stream = append(stream, ' ')
	}
	t0 := len(stream)
	stream = append(stream, tok...)
	t1 := len(stream)
	stream = append(stream, ' ', '7')
	r := &chunkReader{data: stream, end: len(stream), sizes: [3]int{4096, 4096, 4096}, err: io.EOF}
	dec := NewDecoder(r)
	var v RawMessage
	err := dec.Decode(&v)
	vfAssert(err == nil, "first-value-delivered")
	vfAssert(len(v) == pad+2, "first-value-length")
	vfAssert(dec.InputOffset() >= int64(pad+2), "InputOffset-after-value")
	vfAssert(dec.InputOffset() <= int64(t0), "InputOffset-before-next-value")
	err = dec.Decode(&v)
	vfAssert(err == nil, "boundary-value-delivered")
	if err == nil {
		vfAssert(string(v) == tok, "boundary-value-bytes")
	}
	vfAssert(dec.InputOffset() >= int64(t1), "InputOffset-after-value")
	vfAssert(dec.InputOffset() <= int64(t1+1), "InputOffset-before-next-value")
	err = dec.Decode(&v)
	vfAssert(err == nil, "last-value-delivered")
	if err == nil {
		vfAssert(string(v) == "7", "last-value-bytes")
	}
	err = dec.Decode(&v)
	vfAssert(err == io.EOF, "clean-end-is-io.EOF")
	vfCover("done")
}

// H11-huge: ONE value larger than the read buffer (so readValue refills and re-scans within a single call): an array
// ["aaa...a" (vfLen2 bytes), <token>] followed by 7. The token (vfMode) contains escapes / non-ASCII / control-free
// text that the scanner hints computed for the first buffer-full (no backslash, ASCII only) do not describe.
func vfH_c11_huge() {
	pad := vfLen2
	tokens := []string{`"x\"y"`, `{"k\"":"\\"}`, `"éé"`, `"A\n"`, `[-1.5e3,"\/"]`, `"plain"`}
	tok := tokens[vfMode]
	var stream []byte
	stream = append(stream, '[', '"')
	for i := 0; i < pad; i++ {
		stream = append(stream, 'a')
	}
	stream = append(stream, '"', ',')
	stream = append(stream, tok...)
	stream = append(stream, ']')
	t1 := len(stream)
	stream = append(stream, ' ', '7')
	r := &chunkReader{data: stream, end: len(stream), sizes: [3]int{4096, 8192, 1000}, err: io.EOF}
	dec := NewDecoder(r)
	var v RawMessage
	err := dec.Decode(&v)
	vfAssert(err == nil, "huge-value-delivered")
	if err == nil {
		vfAssert(len(v) == t1, "huge-value-length")
		if len(v) == t1 {
			vfAssert(string(v[t1-1-len(tok):t1-1]) == tok, "huge-value-tail-bytes")
		}
	}
	vfAssert(dec.InputOffset() >= int64(t1), "InputOffset-after-value")
	vfAssert(dec.InputOffset() <= int64(t1+1), "InputOffset-before-next-value")
	var x []any
	dec2 := NewDecoder(&chunkReader{data: stream, end: len(stream), sizes: [3]int{4096, 8192, 1000}, err: io.EOF})
	err = dec2.Decode(&x)
	vfAssert(err == nil && len(x) == 2, "huge-value-decodes-into-a-slice")
	err = dec.Decode(&v)
	vfAssert(err == nil, "last-value-delivered")
	if err == nil {
		vfAssert(string(v) == "7", "last-value-bytes")
	}
	err = dec.Decode(&v)
	vfAssert(err == io.EOF, "clean-end-is-io.EOF")
	vfCover("done")
}
