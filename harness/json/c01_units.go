package json

import (
	stdjson "encoding/json"
	"unsafe"
)

// H01-str: encodeString / AppendEscape / Escape vs refQuote on every string of the length (all bytes free).
func vfH_c01_str() {
	s := vfString(vfLen)
	esc := vfFlags&1 == 0
	want := refQuote(nil, s, esc)
	if vfNative() {
		var sb vfSinkBuf
		e := stdjson.NewEncoder(&sb)
		e.SetEscapeHTML(esc)
		e.Encode(s)
		if string(sb.b) != string(want)+"\n" {
			vfModelBug("refQuote != encoding/json")
		}
	}
	var flags AppendFlags
	if esc {
		flags = EscapeHTML
	}
	got := AppendEscape(nil, s, flags)
	vfAssert(string(got) == string(want), "AppendEscape==encoding/json")
	if esc {
		vfAssert(string(Escape(s)) == string(want), "Escape==encoding/json")
	}
	vfCover("done")
}

// H01-strlong: strings of length 8..26 made of plain letters except for two arbitrary bytes at arbitrary positions:
// covers every word/tail residue of escapeIndex and its hand-over to the byte loop.
func vfH_c01_strlong() {
	n := vfLen
	b := vfBytes(n)
	p1 := vfIntIn(0, n-1)
	p2 := p1
	if vfMode >= 2 {
		p2 = vfIntIn(0, n-1)
	}
	for i := 0; i < n; i++ {
		if i != p1 && i != p2 {
			vfAssume(b[i] >= 'a')
			vfAssume(b[i] <= 'z')
		}
	}
	s := string(b)
	esc := vfFlags&1 == 0
	want := refQuote(nil, s, esc)
	var flags AppendFlags
	if esc {
		flags = EscapeHTML
	}
	got := AppendEscape(nil, s, flags)
	vfAssert(string(got) == string(want), "AppendEscape==encoding/json")
	vfCover("done")
}

// H01-int: decimal formatting of every 64-bit integer, by induction on the number of digit pairs (keeps 64-bit
// division out of the solver's way - both sides of the step lemma run the REAL formatInteger and share hash-consed terms):
//   vfMode 0  base:  n < 100        appendUint(n) == the decimal text of n (reference by division, 7-bit arithmetic)
//   vfMode 1  step:  n >= 100       appendUint(n) == appendUint(n/100) ++ two digits of n%100
//   vfMode 2  sign:  n < 0 (int64)  appendInt(n)  == "-" ++ appendUint(uint64(-n))   (and appendInt(n) == appendUint(n) for n >= 0)
// D(n) = D(n/100) ++ dd(n%100) for n >= 100 is the defining recursion of decimal notation, hence appendUint == D.
func vfH_c01_int() {
	switch vfMode {
	case 0:
		n := vfU64()
		vfAssume(n < 100)
		got := appendUint(nil, n)
		want := refUint(nil, n)
		vfAssert(string(got) == string(want), "base-n<100")
		pre := []byte{'x', 'y'}
		got2 := appendUint(pre, n)
		vfAssert(string(got2) == "xy"+string(want), "base-appends")
	case 1:
		n := vfU64()
		vfAssume(n >= 100)
		a := appendUint(nil, n)
		b := appendUint(nil, n/100)
		j := n % 100
		vfAssert(len(a) == len(b)+2, "step-length")
		if len(a) == len(b)+2 {
			vfAssert(string(a[:len(b)]) == string(b), "step-prefix==format(n/100)")
			vfAssert(a[len(b)] == byte('0'+j/10), "step-tens-digit")
			vfAssert(a[len(b)+1] == byte('0'+j%10), "step-units-digit")
		}
		vfAssert(len(b) >= 1, "nonempty")
		if len(b) >= 1 {
			vfAssert(b[0] != '0', "no-leading-zero")
		}
	case 2:
		n := int64(vfU64())
		a := appendInt(nil, n)
		if n < 0 {
			vfCover("negative")
			b := appendUint(nil, uint64(-n))
			vfAssert(len(a) == len(b)+1, "sign-length")
			if len(a) == len(b)+1 {
				vfAssert(a[0] == '-', "minus-sign")
				vfAssert(string(a[1:]) == string(b), "sign-magnitude==appendUint(-n)")
			}
		} else {
			b := appendUint(nil, uint64(n))
			vfAssert(string(a) == string(b), "nonnegative==appendUint")
		}
	}
	if vfNative() {
		// the real oracle on the witness
		n := vfWitness0()
		r1, _ := stdjson.Marshal(n)
		if string(appendUint(nil, n)) != string(r1) {
			vfAssert(false, "step-prefix==format(n/100)")
		}
		r2, _ := stdjson.Marshal(int64(n))
		if string(appendInt(nil, int64(n))) != string(r2) {
			vfAssert(false, "sign-magnitude==appendUint(-n)")
		}
	}
	vfCover("done")
}

var _ = unsafe.Pointer(nil)

// H01-intkeys: maps with integer keys and TWO entries with arbitrary distinct keys: encoding/json writes the members
// sorted by the keys' DECIMAL TEXTS (so "-1" < "-2" and "10" < "9"), for signed (vfMode 0: int8, 1: int) and unsigned
// (vfMode 2: uint8) key types, through Marshal and through Encoder.Encode.
func vfH_c01_intkeys() {
	b1, b2 := vfByte(), vfByte()
	vfAssume(b1 != b2)
	var v any
	var s1, s2 []byte
	switch vfMode {
	case 0:
		v = map[int8]bool{int8(b1): true, int8(b2): false}
		s1, s2 = refInt(nil, int64(int8(b1))), refInt(nil, int64(int8(b2)))
	case 1:
		v = map[int]bool{int(int8(b1)): true, int(int8(b2)): false}
		s1, s2 = refInt(nil, int64(int8(b1))), refInt(nil, int64(int8(b2)))
	default:
		v = map[uint8]bool{b1: true, b2: false}
		s1, s2 = refUint(nil, uint64(b1)), refUint(nil, uint64(b2))
	}
	want := []byte(`{"`)
	if string(s1) < string(s2) {
		want = append(want, s1...)
		want = append(want, `":true,"`...)
		want = append(want, s2...)
		want = append(want, `":false}`...)
	} else {
		want = append(want, s2...)
		want = append(want, `":false,"`...)
		want = append(want, s1...)
		want = append(want, `":true}`...)
	}
	checkModel(v, want, true, true)
	var got []byte
	var err error
	if vfFlags&1 == 0 {
		got, err = Marshal(v)
	} else {
		var sb vfSinkBuf
		err = NewEncoder(&sb).Encode(v)
		got = sb.b
		if len(got) > 0 {
			got = got[:len(got)-1]
		}
	}
	vfAssert(err == nil, "error-iff-encoding/json-fails")
	if err == nil {
		vfAssert(string(got) == string(want), "bytes==encoding/json")
	}
	vfCover("done")
}
