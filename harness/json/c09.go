package json

// H09-json: first-ever use of several distinct types in sequence under the adversarial environment model of the
// engine (vfConcurrency): copy-on-write codec cache loads may observe ANY snapshot published earlier (lost updates by
// other goroutines), everything reachable from a published cache is frozen (a write would race with a reader), and
// the sync.Pool hands back any released object or none. Every call must return exactly its solo result.
func vfH_c09_json() {
	vfConcurrency(1)
	// concrete values: the quantifier of C09 is the environment (snapshots observed, pool hand-backs), not the data
	seven := 7
	var a any = jBasic{A: -12, B: "x<y"}
	var b any = jPtrs{C: &seven, D: true}
	wa, _ := jshapes[0].want(a, true)
	wb, _ := jshapes[1].want(b, true)
	r1, e1 := Marshal(a)
	vfAssert(e1 == nil && string(r1) == string(wa), "first-type-solo-result")
	r2, e2 := Marshal(b)
	vfAssert(e2 == nil && string(r2) == string(wb), "second-type-solo-result")
	r3, e3 := Marshal(a)
	vfAssert(e3 == nil && string(r3) == string(wa), "first-type-again-solo-result")
	var x jBasic
	e4 := Unmarshal(wa, &x)
	vfAssert(e4 == nil, "unmarshal-ok")
	r5, e5 := Marshal(x)
	vfAssert(e5 == nil, "remarshal-ok")
	_ = r5
	// two tokenizers alive at once after an error + Reset never share a stack
	t1 := NewTokenizer([]byte(`[[1}`))
	for t1.Next() {
	}
	t1.Reset([]byte(`[{"a":1}]`))
	t2 := NewTokenizer([]byte(`[[[2]]]`))
	t1.Next()
	t2.Next()
	t1.Next()
	t2.Next()
	if t1.stack != nil && t2.stack != nil {
		vfAssert(t1.stack != t2.stack, "pooled-stack-not-shared-by-two-live-tokenizers")
	}
	vfAssert(t1.Depth == 1, "tokenizer-1-depth")
	vfAssert(t2.Depth == 1, "tokenizer-2-depth")
	vfCover("done")
}
