package json

import (
	stdjson "encoding/json"
	"io"
)

// ---- reference token classifiers for the free-bytes decoder harness

// refTop returns, for a VALID document, the kind of its top-level value and the byte range of that value.
func refTop(b []byte) (kind byte, start, end int) {
	p := &refP{b: b}
	p.ws()
	start = p.i
	kind = b[p.i]
	p.value()
	return kind, start, p.i
}

func isDigit(c byte) bool { return c >= '0' && c <= '9' }

// refIntLit: tok is a JSON number token; reports whether it is an integer literal (no fraction/exponent)
func refIntLit(tok []byte) bool {
	for _, c := range tok {
		if c == '.' || c == 'e' || c == 'E' {
			return false
		}
	}
	return true
}

// refMagnitude: decimal value of the digits of an integer literal if it is <= limit, compared digit-wise with the
// decimal text of the limit (no multiplication that could wrap)
func refFits(digits []byte, limit string) bool {
	// strip leading zeros (an integer literal has none except "0" itself)
	if len(digits) < len(limit) {
		return true
	}
	if len(digits) > len(limit) {
		return false
	}
	for i := 0; i < len(limit); i++ {
		if digits[i] < limit[i] {
			return true
		}
		if digits[i] > limit[i] {
			return false
		}
	}
	return true
}

func refValue64(digits []byte) uint64 {
	var v uint64
	for _, c := range digits {
		v = v*10 + uint64(c-'0')
	}
	return v
}

// H02-int: free bytes into integer targets of each width: accept exactly when encoding/json does (valid document
// whose value is null or an integer literal that fits), and the same value. vfMode: 0 int8, 1 uint8, 2 int64, 3 uint64.
func vfH_c02_int() {
	b := vfBytes(vfLen)
	valid := refValid(b)
	wantOK := false
	var wantS int64
	var wantU uint64
	isNull := false
	if valid {
		kind, s, e := refTop(b)
		tok := b[s:e]
		switch {
		case kind == 'n':
			wantOK, isNull = true, true
		case kind == '-' || isDigit(kind):
			if refIntLit(tok) {
				neg := tok[0] == '-'
				d := tok
				if neg {
					d = tok[1:]
				}
				switch vfMode {
				case 0:
					if neg {
						wantOK = refFits(d, "128")
					} else {
						wantOK = refFits(d, "127")
					}
				case 1:
					wantOK = !neg && refFits(d, "255") || (neg && refValue64OK(d) && refValue64(d) == 0 && false)
				case 2:
					if neg {
						wantOK = refFits(d, "9223372036854775808")
					} else {
						wantOK = refFits(d, "9223372036854775807")
					}
				case 3:
					wantOK = !neg && refFits(d, "18446744073709551615")
				}
				if wantOK {
					wantU = refValue64(d)
					wantS = int64(wantU)
					if neg {
						wantS = -wantS
					}
				}
			}
		}
	}
	var err error
	var gotS int64 = 77
	var gotU uint64 = 77
	switch vfMode {
	case 0:
		x := int8(77)
		err = Unmarshal(b, &x)
		gotS = int64(x)
	case 1:
		x := uint8(77)
		err = Unmarshal(b, &x)
		gotU = uint64(x)
	case 2:
		x := int64(77)
		err = Unmarshal(b, &x)
		gotS = x
	case 3:
		x := uint64(77)
		err = Unmarshal(b, &x)
		gotU = x
	}
	if vfNative() {
		var serr error
		switch vfMode {
		case 0:
			var x int8
			serr = stdjson.Unmarshal(b, &x)
		case 1:
			var x uint8
			serr = stdjson.Unmarshal(b, &x)
		case 2:
			var x int64
			serr = stdjson.Unmarshal(b, &x)
		case 3:
			var x uint64
			serr = stdjson.Unmarshal(b, &x)
		}
		if (serr == nil) != wantOK {
			vfModelBug("refDecodeInt accept != encoding/json")
		}
	}
	if err == nil {
		vfCover("accepted")
	} else {
		vfCover("rejected")
	}
	vfAssert((err == nil) == wantOK, "accept-iff-encoding/json")
	if err == nil && wantOK {
		if isNull {
			vfAssert(gotS == 77 && gotU == 77, "null-leaves-target-untouched")
		} else if vfMode == 0 || vfMode == 2 {
			vfAssert(gotS == wantS, "value")
		} else {
			vfAssert(gotU == wantU, "value")
		}
	}
}

func refValue64OK(d []byte) bool { return len(d) <= 19 }

// H02-digits: integer literals of vfLen digits into int64 / uint64 around the overflow boundary: the leading digit and
// the last vfLen2 digits are free, the digits in between are those of the type's limit (for vfLen below 13 every digit
// is free). vfMode 2 int64 (with free sign), 3 uint64.
func vfH_c02_digits() {
	n := vfLen
	free := vfLen2
	if free > n {
		free = n
	}
	neg := vfMode == 2 && vfBool()
	limit := "18446744073709551615"
	if vfMode == 2 {
		limit = "9223372036854775807"
		if neg {
			limit = "9223372036854775808"
		}
	}
	d := make([]byte, n)
	for i := 0; i < n; i++ {
		if i > 0 && i < n-free && i < len(limit) {
			d[i] = limit[i] // the leading digit and the last vfLen2 digits are free
			continue
		}
		d[i] = vfByte()
		vfAssume(d[i] >= '0')
		vfAssume(d[i] <= '9')
	}
	if n > 1 {
		vfAssume(d[0] != '0')
	}
	b := d
	if neg {
		b = append([]byte{'-'}, d...)
	}
	var err error
	wantOK := refFits(d, limit)
	if vfMode == 2 {
		var x int64
		err = Unmarshal(b, &x)
		if err == nil && wantOK {
			w := int64(refValue64(d))
			if neg {
				w = -w
			}
			vfAssert(x == w, "value")
		}
	} else {
		var x uint64
		err = Unmarshal(b, &x)
		if err == nil && wantOK {
			vfAssert(x == refValue64(d), "value")
		}
	}
	if vfNative() {
		var serr error
		if vfMode == 2 {
			var x int64
			serr = stdjson.Unmarshal(b, &x)
		} else {
			var x uint64
			serr = stdjson.Unmarshal(b, &x)
		}
		if (serr == nil) != wantOK {
			vfModelBug("refFits != encoding/json")
		}
	}
	if err == nil {
		vfCover("accepted")
	} else {
		vfCover("rejected")
	}
	vfAssert((err == nil) == wantOK, "accept-iff-fits")
}

// H02-kinds: free bytes into targets of other kinds: accept parity with encoding/json's rules
// (valid document AND top-level value compatible with the target). vfMode: 0 bool, 1 string, 2 any, 3 struct{},
// 4 []int8, 5 [2]int8, 6 map[string]int8, 7 *int8, 8 RawMessage, 9 jBasic
func vfH_c02_kinds() {
	b := vfBytes(vfLen)
	valid := refValid(b)
	var err, serr error
	switch vfMode {
	case 0:
		var x, y bool
		err = Unmarshal(b, &x)
		if vfNative() {
			serr = stdjson.Unmarshal(b, &y)
		}
	case 1:
		var x, y string
		err = Unmarshal(b, &x)
		if vfNative() {
			serr = stdjson.Unmarshal(b, &y)
			if serr == nil && err == nil && x != y {
				vfAssert(false, "value")
			}
		}
	case 2:
		for i := range b { // float parsing is an opaque stub: exponents (range errors) are outside this unit
			vfAssume(b[i] != 'e')
			vfAssume(b[i] != 'E')
		}
		var x, y any
		err = Unmarshal(b, &x)
		if vfNative() {
			serr = stdjson.Unmarshal(b, &y)
		}
	case 3:
		var x, y struct{}
		err = Unmarshal(b, &x)
		if vfNative() {
			serr = stdjson.Unmarshal(b, &y)
		}
	case 4:
		var x, y []int8
		err = Unmarshal(b, &x)
		if vfNative() {
			serr = stdjson.Unmarshal(b, &y)
		}
	case 5:
		var x, y [2]int8
		err = Unmarshal(b, &x)
		if vfNative() {
			serr = stdjson.Unmarshal(b, &y)
			if serr == nil && err == nil && x != y {
				vfAssert(false, "value")
			}
		}
	case 6:
		var x, y map[string]int8
		err = Unmarshal(b, &x)
		if vfNative() {
			serr = stdjson.Unmarshal(b, &y)
		}
	case 7:
		var x, y *int8
		err = Unmarshal(b, &x)
		if vfNative() {
			serr = stdjson.Unmarshal(b, &y)
		}
	case 8:
		var x, y RawMessage
		err = Unmarshal(b, &x)
		if vfNative() {
			serr = stdjson.Unmarshal(b, &y)
		}
	case 9:
		var x, y jBasic
		err = Unmarshal(b, &x)
		if vfNative() {
			serr = stdjson.Unmarshal(b, &y)
			if serr == nil && err == nil && x != y {
				vfAssert(false, "value")
			}
		}
	}
	wantOK := valid && refKindOK(b, vfMode)
	if vfNative() && (serr == nil) != wantOK {
		vfModelBug("refKindOK != encoding/json")
	}
	if err == nil {
		vfCover("accepted")
	} else {
		vfCover("rejected")
	}
	if !valid {
		vfAssert(err != nil, "invalid-document-rejected")
	}
	vfAssert((err == nil) == wantOK, "accept-iff-encoding/json")
}

// refKindOK: for a VALID document, whether encoding/json decodes it into the target without error.
// Only shallow documents are classified exactly (the free-bytes bound keeps documents shallow); element checks recurse
// one level for arrays/objects of integers.
func refKindOK(b []byte, mode int) bool {
	kind, s, e := refTop(b)
	if kind == 'n' {
		return true
	}
	int8ok := func(tok []byte) bool {
		if len(tok) == 0 {
			return false
		}
		if tok[0] == 'n' {
			return true
		}
		if !(tok[0] == '-' || isDigit(tok[0])) || !refIntLit(tok) {
			return false
		}
		if tok[0] == '-' {
			return refFits(tok[1:], "128")
		}
		return refFits(tok, "127")
	}
	switch mode {
	case 0:
		return kind == 't' || kind == 'f'
	case 1:
		return kind == '"'
	case 2:
		return true
	case 3:
		return kind == '{'
	case 4, 5:
		if kind != '[' {
			return false
		}
		// elements
		p := &refP{b: b, i: s + 1}
		idx := 0
		for {
			p.ws()
			if p.b[p.i] == ']' {
				return true
			}
			es := p.i
			p.value()
			if mode == 4 || idx < 2 {
				if !int8ok(p.b[es:p.i]) {
					return false
				}
			}
			idx++
			p.ws()
			if p.b[p.i] == ',' {
				p.i++
			}
		}
	case 6:
		if kind != '{' {
			return false
		}
		p := &refP{b: b, i: s + 1}
		for {
			p.ws()
			if p.b[p.i] == '}' {
				return true
			}
			p.str()
			p.ws()
			p.i++ // ':'
			p.ws()
			es := p.i
			p.value()
			if !int8ok(p.b[es:p.i]) {
				return false
			}
			p.ws()
			if p.b[p.i] == ',' {
				p.i++
			}
		}
	case 7:
		return int8ok(b[s:e])
	case 8:
		return true
	case 9:
		if kind != '{' {
			return false
		}
		// members "a"/"A" must be ints, "b"/"B" strings (case-insensitive match); others ignored
		p := &refP{b: b, i: s + 1}
		for {
			p.ws()
			if p.b[p.i] == '}' {
				return true
			}
			ks := p.i
			p.str()
			key := p.b[ks+1 : p.i-1]
			p.ws()
			p.i++
			p.ws()
			es := p.i
			p.value()
			tok := p.b[es:p.i]
			if len(key) == 1 && (key[0] == 'a' || key[0] == 'A') {
				if !(tok[0] == 'n' || ((tok[0] == '-' || isDigit(tok[0])) && refIntLit(tok))) {
					return false
				}
			}
			if len(key) == 1 && (key[0] == 'b' || key[0] == 'B') {
				if !(tok[0] == 'n' || tok[0] == '"') {
					return false
				}
			}
			p.ws()
			if p.b[p.i] == ',' {
				p.i++
			}
		}
	}
	return false
}

// H02-roundtrip: for every catalogue value, decoding the canonical encoding/json text reproduces the value
// (Unmarshal into a zero target and into a target pre-populated by a first decode).
func vfH_c02_roundtrip() {
	sh := jshapes[vfShape]
	v := sh.mk()
	doc, ok := sh.want(v, true)
	if !ok {
		return
	}
	p := sh.newp()
	err := Unmarshal(doc, p)
	vfAssert(err == nil, "canonical-document-accepted")
	if err != nil {
		return
	}
	doc2, err2 := Marshal(p)
	vfAssert(err2 == nil, "re-marshal-ok")
	if err2 == nil {
		vfAssert(string(doc2) == string(doc), "decode-then-encode-is-identity")
	}
	// second decode into the same (now populated) target
	err = Unmarshal(doc, p)
	vfAssert(err == nil, "second-decode-accepted")
	doc3, err3 := Marshal(p)
	if err3 == nil {
		vfAssert(string(doc3) == string(doc), "second-decode-same-value")
	}
	vfCover("done")
}

type jKeys struct {
	Name string `json:"name"`
	ID   int8   `json:"id"`
	Nm   string `json:"nam"`
}

// H02-keys: object keys against a struct target, on the machine-independent field index (vfFlags 0) and on the keyset
// fast path that CPUs with AVX/ASIMD take (vfFlags 1): the key is a field name, a case variant, a proper prefix, or a
// name followed by extra bytes (one arbitrary byte written raw or as \u00XX, which includes NUL): the field is set
// exactly when encoding/json matches the key (exact, else case-insensitive), otherwise the member is skipped.
func vfH_c02_keys() {
	if vfFlags&1 != 0 {
		vfCPUAll()
	}
	names := []string{"name", "id", "nam"}
	base := names[vfIntIn(0, 2)]
	key := []byte(base)
	extra := byte(0)
	switch vfMode {
	case 0: // exact
	case 1: // one letter in the other case
		i := vfIntIn(0, len(key)-1)
		key[i] ^= 0x20
	case 2: // proper prefix
		key = key[:len(key)-1]
	case 3: // name + one arbitrary byte, escaped as \u00XX
		extra = vfByte()
	case 4: // name + one arbitrary raw byte (printable ASCII other than quote and backslash)
		extra = vfByte()
		vfAssume(extra >= 0x20 && extra < 0x7f && extra != '"' && extra != '\\')
	}
	doc := []byte(`{"`)
	doc = append(doc, key...)
	keyStr := string(key)
	if vfMode == 3 {
		const hex = "0123456789abcdef"
		doc = append(doc, '\\', 'u', '0', '0', hex[extra>>4], hex[extra&15])
		keyStr += string(rune(extra)) // U+0000..U+00FF
	} else if vfMode == 4 {
		doc = append(doc, extra)
		keyStr += string(rune(extra))
	}
	doc = append(doc, `":`...)
	isID := false
	// which field does encoding/json pick? exact match first, else ASCII case-insensitive match (names are lower-case
	// ASCII letters, for which simple folding is ASCII case folding plus U+212A KELVIN SIGN -> k, not reachable here)
	match := ""
	for _, n := range names {
		if keyStr == n {
			match = n
		}
	}
	if match == "" {
		for _, n := range names {
			if len(keyStr) == len(n) {
				eq := true
				for i := 0; i < len(n); i++ {
					c := keyStr[i]
					if c >= 'A' && c <= 'Z' {
						c += 0x20
					}
					if c != n[i] {
						eq = false
					}
				}
				if eq && match == "" {
					match = n
				}
			}
		}
	}
	isID = match == "id"
	if base == "id" || isID {
		doc = append(doc, `7}`...)
	} else {
		doc = append(doc, `"v"}`...)
	}
	var got jKeys
	err := Unmarshal(doc, &got)
	if vfNative() {
		var std jKeys
		serr := stdjson.Unmarshal(doc, &std)
		want := jKeys{}
		switch match {
		case "name":
			want.Name = "v"
		case "id":
			want.ID = 7
		case "nam":
			want.Nm = "v"
		}
		wantErr := match != "" && ((match == "id") != (base == "id" || isID))
		if (serr != nil) != wantErr || (serr == nil && std != want) {
			vfModelBug("key matching model != encoding/json")
		}
	}
	typeErr := match != "" && ((match == "id") != (base == "id" || isID))
	vfAssert((err != nil) == typeErr, "error-iff-encoding/json-fails")
	if err == nil {
		vfAssert((got.Name == "v") == (match == "name"), "field-name-set-iff-matched")
		vfAssert((got.ID == 7) == (match == "id"), "field-id-set-iff-matched")
		vfAssert((got.Nm == "v") == (match == "nam"), "field-nam-set-iff-matched")
		vfAssert(got.Name == "" || got.Name == "v", "field-name-value")
	}
	if match == "" {
		vfCover("skipped")
	} else {
		vfCover("matched")
	}
	// DisallowUnknownFields: an unmatched key is an error, a matched one is not
	dec := NewDecoder(&chunkReader{data: doc, end: len(doc), sizes: [3]int{64, 64, 64}, err: io.EOF})
	dec.DisallowUnknownFields()
	var g2 jKeys
	err2 := dec.Decode(&g2)
	vfAssert((err2 != nil) == (match == "" || typeErr), "DisallowUnknownFields-reports-exactly-unmatched-keys")
}
