package json

// H10-decode: documents built from templates with symbolic pieces, decoded with Parse under every subset of the
// zero-copy flags. (1) the input bytes are unchanged afterwards; (2) without the corresponding DontCopy flag no decoded
// string / Number / RawMessage / []byte / map key shares its backing object with the input; (3) decoding the same
// buffer a second time gives the same result (the first decode did not corrupt what it was lent).
func c10doc() []byte {
	s2 := vfBytes(2)
	d1, d2 := vfByte(), vfByte()
	vfAssume(d1 >= '0')
	vfAssume(d1 <= '9')
	vfAssume(d2 >= '0')
	vfAssume(d2 <= '9')
	var doc []byte
	switch vfMode {
	case 0:
		doc = append(doc, `{"a":1`...)
		doc = append(doc, d1)
		doc = append(doc, `,"b":"`...)
		doc = append(doc, s2...)
		doc = append(doc, `"}`...)
	case 1:
		doc = append(doc, `{"e":"0`...)
		doc = append(doc, d1, d2)
		doc = append(doc, `","F":"-0`...)
		doc = append(doc, d1)
		doc = append(doc, `","s":"\"`...)
		doc = append(doc, s2[0])
		doc = append(doc, `\""}`...)
	case 2:
		doc = append(doc, `{"`...)
		doc = append(doc, s2...)
		doc = append(doc, `":"v`...)
		doc = append(doc, d1)
		doc = append(doc, `"}`...)
	case 3:
		doc = append(doc, `["`...)
		doc = append(doc, s2...)
		doc = append(doc, `",{"k`...)
		doc = append(doc, d1)
		doc = append(doc, `":"w"}]`...)
	case 4:
		doc = append(doc, `{"N":1`...)
		doc = append(doc, d1)
		doc = append(doc, `,"r":[1, `...)
		doc = append(doc, d2)
		doc = append(doc, `]}`...)
	case 5:
		doc = append(doc, `{"L":[1,`...)
		doc = append(doc, d1)
		doc = append(doc, `],"B":"QUJ`...)
		doc = append(doc, 'A'+(d2-'0'))
		doc = append(doc, `","A":[1,2]}`...)
	}
	return doc
}

func aliases(s string, doc []byte) bool {
	if len(s) == 0 {
		return false
	}
	return vfSameObj(vfStrBytes(s), doc)
}

func vfH_c10_decode() {
	doc := c10doc()
	saved := append([]byte(nil), doc...)
	flags := ParseFlags(vfFlags) << 2 // bits: DontCopyString, DontCopyNumber, DontCopyRawMessage
	copyStr := flags&DontCopyString == 0
	copyNum := flags&DontCopyNumber == 0
	copyRaw := flags&DontCopyRawMessage == 0
	unchanged := func() {
		eq := true
		for i := range doc {
			eq = vfAnd(eq, doc[i] == saved[i])
		}
		vfAssert(eq, "input-bytes-unchanged")
	}
	switch vfMode {
	case 0:
		var x, y jBasic
		_, err := Parse(doc, &x, flags)
		unchanged()
		if err == nil {
			vfCover("decoded")
			if copyStr {
				vfAssert(!aliases(x.B, doc), "string-does-not-alias-input")
			}
			_, err2 := Parse(doc, &y, flags)
			vfAssert(err2 == nil, "second-decode-ok")
			vfAssert(x.A == y.A, "second-decode-same-value")
			vfAssert(x.B == y.B, "second-decode-same-value")
		}
	case 1:
		var x, y jStrTag
		_, err := Parse(doc, &x, flags)
		unchanged()
		if err == nil {
			vfCover("decoded")
			if copyStr {
				vfAssert(!aliases(x.S, doc), "string-does-not-alias-input")
			}
			_, err2 := Parse(doc, &y, flags)
			vfAssert(err2 == nil, "second-decode-ok")
			vfAssert(x.E == y.E, "second-decode-same-value")
			vfAssert(x.F == y.F, "second-decode-same-value")
			vfAssert(x.S == y.S, "second-decode-same-value")
		}
	case 2:
		var x map[string]string
		_, err := Parse(doc, &x, flags)
		unchanged()
		if err == nil {
			vfCover("decoded")
			for k, v := range x {
				if copyStr {
					vfAssert(!aliases(k, doc), "map-key-does-not-alias-input")
					vfAssert(!aliases(v, doc), "string-does-not-alias-input")
				}
			}
		}
	case 3:
		var x any
		_, err := Parse(doc, &x, flags)
		unchanged()
		if err == nil {
			vfCover("decoded")
			arr, _ := x.([]any)
			if len(arr) == 2 && copyStr {
				if s, ok := arr[0].(string); ok {
					vfAssert(!aliases(s, doc), "string-does-not-alias-input")
				}
				if m, ok := arr[1].(map[string]any); ok {
					for k := range m {
						vfAssert(!aliases(k, doc), "map-key-does-not-alias-input")
					}
				}
			}
		}
	case 4:
		var x jNumRaw
		_, err := Parse(doc, &x, flags)
		unchanged()
		if err == nil {
			vfCover("decoded")
			if copyNum {
				vfAssert(!aliases(string(x.N), doc), "number-does-not-alias-input")
			}
			if copyRaw && len(x.R) > 0 {
				vfAssert(!vfSameObj(x.R, doc), "rawmessage-does-not-alias-input")
			}
		}
	case 5:
		var x jSlices
		_, err := Parse(doc, &x, flags)
		unchanged()
		if err == nil {
			vfCover("decoded")
			if len(x.B) > 0 {
				vfAssert(!vfSameObj(x.B, doc), "bytes-do-not-alias-input")
			}
		}
	}
	vfCover("done")
}

// H10-encode: results of Marshal / Encoder.Encode are stable: a later call (which reuses the pooled buffer, handed
// back adversarially) leaves an earlier result unchanged, and two results never share memory.
func vfH_c10_encode() {
	vfPoolMode(1)
	sh := jshapes[vfShape]
	v := sh.mk()
	// the later call encodes a fixed value with different bytes: it costs no additional paths
	w := []string{"~~~~~~~~~~~~~~~~", "################################"}
	r1, e1 := Marshal(v)
	if e1 != nil {
		return
	}
	saved := append([]byte(nil), r1...)
	r2, e2 := Marshal(w)
	eq := true
	for i := range r1 {
		eq = vfAnd(eq, r1[i] == saved[i])
	}
	vfAssert(eq, "first-result-unchanged-by-second-call")
	if e2 == nil && len(r1) > 0 && len(r2) > 0 {
		vfAssert(!vfSameObj(r1, r2), "results-do-not-share-memory")
	}
	vfCover("done")
}

// H10-large: the same for results larger than any pooled buffer threshold: a string of vfLen2 bytes (one symbolic)
// marshalled, followed by other large and small Marshal / Encode calls; the first result keeps its bytes and shares
// memory with none of the later results.
func vfH_c10_large() {
	n := vfLen2
	s := make([]byte, n)
	for i := range s {
		s[i] = 'a'
	}
	c := vfByte()
	vfAssume(c >= 'a')
	vfAssume(c <= 'z')
	s[n/2] = c
	r1, e1 := Marshal(string(s))
	vfAssert(e1 == nil && len(r1) == n+2, "large-marshal-ok")
	if e1 != nil || len(r1) != n+2 {
		return
	}
	t := make([]byte, n+10)
	for i := range t {
		t[i] = '#'
	}
	r2, e2 := Marshal(string(t))
	var sb vfSinkBuf
	enc := NewEncoder(&sb)
	e3 := enc.Encode(string(t[:n-5]))
	r4, e4 := Marshal("~~")
	vfAssert(e2 == nil && e3 == nil && e4 == nil, "later-calls-ok")
	ok := r1[0] == '"' && r1[n+1] == '"' && r1[1+n/2] == c
	for _, i := range []int{1, 2, n / 3, n - 1, n} {
		ok = vfAnd(ok, r1[i] == 'a' || i == 1+n/2)
	}
	vfAssert(ok, "first-result-unchanged-by-later-calls")
	vfAssert(!vfSameObj(r1, r2), "results-do-not-share-memory")
	vfAssert(!vfSameObj(r1, sb.b), "result-does-not-share-memory-with-encoder-output")
	vfAssert(!vfSameObj(r1, r4), "results-do-not-share-memory")
	vfCover("done")
}
