package json

// H15-shape: Append(b, v, flags) for prefix lengths {0,1,3} x spare capacities {0, n-1, n, n+1, 64} (n = encoded size,
// concrete on every path): the result starts with b, continues with exactly Append(nil, v, flags), errors agree, and no
// byte of b's backing array below len(b) is written.
func vfH_c15_shape() {
	sh := jshapes[vfShape]
	v := sh.mk()
	c15Sweep(v, AppendFlags(vfFlags))
	vfCover("done")
}

func c15Sweep(v any, flags AppendFlags) {
	ref, rerr := Append(nil, v, flags)
	n := len(ref)
	for _, p := range []int{0, 1, 3} {
		for _, spare := range []int{0, n - 1, n, n + 1, 64} {
			if spare < 0 {
				continue
			}
			full := make([]byte, p+spare)
			for i := range full {
				if i < p {
					full[i] = byte(0xA0 + i)
				} else {
					full[i] = 0xEE
				}
			}
			buf := full[:p]
			out, err := Append(buf, v, flags)
			vfAssert((err == nil) == (rerr == nil), "error-parity-with-nil-destination")
			vfAssert(len(out) >= p, "result-not-shorter-than-destination")
			if len(out) >= p {
				for i := 0; i < p; i++ {
					vfAssert(out[i] == byte(0xA0+i), "result-starts-with-destination")
				}
				if err == nil && rerr == nil {
					vfAssert(string(out[p:]) == string(ref), "remainder==Append(nil)")
				}
			}
			for i := 0; i < p; i++ {
				vfAssert(full[i] == byte(0xA0+i), "destination-bytes-below-len-untouched")
			}
		}
	}
}

// H15-top: the same sweep on values passed at top level (no enclosing struct whose own roll-back could mask a wrong
// slice returned by an inner encoder), including values whose encoding fails half-way: specialised maps, slices,
// interfaces, Marshalers.
func vfH_c15_top() {
	var v any
	switch vfMode {
	case 0:
		v = map[string]any{"a": int8(vfByte()), "b": jMarshalerV{fail: true}, "c": "x"}
	case 1:
		v = map[string]RawMessage{"a": RawMessage(`1`), "b": RawMessage(`{`)}
	case 2:
		v = map[string]string{"a": symStr(1), "b": "<"}
	case 3:
		v = map[string][]string{"a": {symStr(1)}, "b": nil}
	case 4:
		v = map[string]bool{"a": vfBool()}
	case 5:
		v = []any{symStr(1), jMarshalerV{fail: true}}
	case 6:
		v = map[int8]any{1: "x", 2: jMarshalerV{fail: true}}
	case 7:
		v = jMarshalerV{b: vfBytes(2)}
	case 8:
		v = []string{symStr(1), "&"}
	case 9:
		v = map[string]any{"k": map[string]any{"i": jMarshalerV{fail: true}}}
	}
	c15Sweep(v, AppendFlags(vfFlags))
	vfCover("done")
}

// H15-escape: the same for AppendEscape / AppendUnescape.
func vfH_c15_escape() {
	s := vfString(vfLen)
	flags := AppendFlags(vfFlags & 1)
	ref := AppendEscape(nil, s, flags)
	n := len(ref)
	for _, p := range []int{0, 2} {
		for _, spare := range []int{0, n - 1, n, n + 1} {
			if spare < 0 {
				continue
			}
			full := make([]byte, p+spare)
			for i := range full {
				full[i] = byte(0xA0 + i)
			}
			out := AppendEscape(full[:p], s, flags)
			vfAssert(len(out) == p+n, "length")
			if len(out) == p+n {
				vfAssert(string(out[p:]) == string(ref), "remainder==AppendEscape(nil)")
				for i := 0; i < p; i++ {
					vfAssert(out[i] == byte(0xA0+i), "result-starts-with-destination")
				}
			}
			for i := 0; i < p; i++ {
				vfAssert(full[i] == byte(0xA0+i), "destination-bytes-below-len-untouched")
			}
		}
	}
	vfCover("done")
}
