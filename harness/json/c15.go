package json

// H15-shape: Append(b, v, flags) for prefix lengths {0,1,3} x spare capacities {0, n-1, n, n+1, 64} (n = encoded size,
// concrete on every path): the result starts with b, continues with exactly Append(nil, v, flags), errors agree, and no
// byte of b's backing array below len(b) is written.
func vfH_c15_shape() {
	sh := jshapes[vfShape]
	v := sh.mk()
	flags := AppendFlags(vfFlags)
	ref, rerr := Append(nil, v, flags)
	n := len(ref)
	for _, p := range []int{0, 1, 3} {
		for _, spare := range []int{0, n - 1, n, n + 1, 64} {
			if spare < 0 {
				continue
			}
			full := make([]byte, p+spare)
			for i := range full {
				if i < p {
					full[i] = byte(0xA0 + i)
				} else {
					full[i] = 0xEE
				}
			}
			buf := full[:p]
			out, err := Append(buf, v, flags)
			vfAssert((err == nil) == (rerr == nil), "error-parity-with-nil-destination")
			vfAssert(len(out) >= p, "result-not-shorter-than-destination")
			if len(out) >= p {
				for i := 0; i < p; i++ {
					vfAssert(out[i] == byte(0xA0+i), "result-starts-with-destination")
				}
				if err == nil && rerr == nil {
					vfAssert(string(out[p:]) == string(ref), "remainder==Append(nil)")
				}
			}
			for i := 0; i < p; i++ {
				vfAssert(full[i] == byte(0xA0+i), "destination-bytes-below-len-untouched")
			}
		}
	}
	vfCover("done")
}

// H15-escape: the same for AppendEscape / AppendUnescape.
func vfH_c15_escape() {
	s := vfString(vfLen)
	flags := AppendFlags(vfFlags & 1)
	ref := AppendEscape(nil, s, flags)
	n := len(ref)
	for _, p := range []int{0, 2} {
		for _, spare := range []int{0, n - 1, n, n + 1} {
			if spare < 0 {
				continue
			}
			full := make([]byte, p+spare)
			for i := range full {
				full[i] = byte(0xA0 + i)
			}
			out := AppendEscape(full[:p], s, flags)
			vfAssert(len(out) == p+n, "length")
			if len(out) == p+n {
				vfAssert(string(out[p:]) == string(ref), "remainder==AppendEscape(nil)")
				for i := 0; i < p; i++ {
					vfAssert(out[i] == byte(0xA0+i), "result-starts-with-destination")
				}
			}
			for i := 0; i < p; i++ {
				vfAssert(full[i] == byte(0xA0+i), "destination-bytes-below-len-untouched")
			}
		}
	}
	vfCover("done")
}
