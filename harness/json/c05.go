package json

import (
	stdjson "encoding/json"
)

var vfLen, vfLen2, vfMode int

func checkRefValid(b []byte, want bool) {
	if vfNative() {
		if stdjson.Valid(b) != want {
			vfModelBug("refValid!=encoding/json.Valid")
		}
	}
}

// H05-valid: Valid(b) == RFC 8259 recogniser, every byte free.
func vfH_c05_valid() {
	b := vfBytes(vfLen)
	got := Valid(b)
	want := refValid(b)
	checkRefValid(b, want)
	if got {
		vfCover("valid")
	} else {
		vfCover("invalid")
	}
	vfAssert(got == want, "Valid==RFC8259")
}

// byte-wise reference for the end of a string token: index just behind the closing quote, or -1
func refStringEnd(b []byte) int {
	if len(b) < 2 || b[0] != '"' {
		return -1
	}
	p := &refP{b: b}
	if !p.str() {
		return -1
	}
	return p.i
}

// H05-string: parseString alone on `"` + free bytes, with the whole-input shortcut flags set only when they are
// true facts about the input (their documented meaning): same accept/reject and same split point as the reference.
func vfH_c05_string() {
	n := vfLen
	b := vfBytes(n)
	vfAssume(b[0] == '"')
	// at most two "special" bytes at free positions keep the path count linear in n: the rest are plain letters
	sp1, sp2 := vfIntIn(1, n-1), vfIntIn(1, n-1)
	for i := 1; i < n; i++ {
		if i != sp1 && i != sp2 {
			vfAssume(b[i] >= 'a')
			vfAssume(b[i] <= 'z')
		}
	}
	d := decoder{}
	if vfBool() {
		d.flags = internalParseFlags(b)
		vfCover("flags-derived")
	}
	v, r, _, err := d.parseString(b)
	want := refStringEnd(b)
	if err == nil {
		vfCover("accepted")
		vfAssert(want >= 0, "accepted-implies-valid-string")
		vfAssert(len(v) == want, "token-end")
		vfAssert(len(v)+len(r) == n, "token+rest==input")
		vfAssert(vfOffsetIn(v, b) == 0, "token-is-prefix-of-input")
	} else {
		vfCover("rejected")
		vfAssert(want < 0, "rejected-implies-invalid-string")
	}
}

// H05-token: parseNumber / parseNull / parseTrue / parseFalse / parseValue on free bytes agree with the reference
// value recogniser about acceptance and token end.
func vfH_c05_value() {
	b := vfBytes(vfLen)
	d := decoder{}
	v, r, _, err := d.parseValue(b)
	end, ok := refValue(b)
	if err == nil {
		vfCover("accepted")
		vfAssert(ok, "accepted-implies-value")
		vfAssert(len(b)-len(r) == end, "value-end")
		vfAssert(len(v) <= end, "value-within")
	} else {
		vfCover("rejected")
		vfAssert(!ok, "rejected-implies-no-value")
	}
}
