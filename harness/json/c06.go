package json

import "time"

type jCycP struct {
	Next *jCycP
	V    int8
}

type jArr1 struct {
	A [1]*int8
}

// H06-enc: Marshal/Append by value and by pointer never panic for every catalogue shape (engine monitors: PANIC,
// out-of-object access, wild pointers), including the single-pointer layouts that interfaces store directly.
func vfH_c06_enc() {
	sh := jshapes[vfShape]
	v := sh.mk()
	b1, e1 := Marshal(v)
	pv := sh.ptr(v)
	b2, e2 := Marshal(pv)
	vfAssert((e1 == nil) == (e2 == nil), "value-vs-pointer-error-parity")
	if e1 == nil && e2 == nil && !sh.noPtrParity {
		vfAssert(string(b1) == string(b2), "value-vs-pointer-same-bytes")
	}
	vfCover("done")
}

// H06-direct: values whose interface representation is a bare pointer word (pointer, map, 1-element array of pointer,
// 1-field struct of pointer) passed BY VALUE.
func vfH_c06_direct() {
	x := int8(vfByte())
	var got []byte
	var err error
	want := refInt(nil, int64(x))
	switch vfMode {
	case 0:
		got, err = Marshal(&x)
	case 1:
		got, err = Marshal([1]*int8{&x})
		want = append(append([]byte{'['}, want...), ']')
	case 2:
		got, err = Marshal(struct{ P *int8 }{&x})
		want = append(append([]byte(`{"P":`), want...), '}')
	case 3:
		got, err = Marshal(jArr1{[1]*int8{&x}})
		want = append(append([]byte(`{"A":[`), want...), ']', '}')
	case 4:
		got, err = Marshal(map[string]*int8{"k": &x})
		want = append(append([]byte(`{"k":`), want...), '}')
	case 5:
		got, err = Marshal([1][1]*int8{{&x}})
		want = append(append([]byte(`[[`), want...), ']', ']')
	case 6:
		got, err = Marshal(struct{ A [1]*int8 }{[1]*int8{&x}})
		want = append(append([]byte(`{"A":[`), want...), ']', '}')
	}
	vfAssert(err == nil, "marshal-ok")
	if err == nil {
		vfAssert(string(got) == string(want), "bytes==encoding/json")
	}
	vfCover("done")
}

// H06-cycle: self-referential values must produce an error, not a crash or a hang.
func vfH_c06_cycle() {
	switch vfMode {
	case 0:
		a := &jCycP{V: 1}
		a.Next = a
		_, err := Marshal(a)
		vfAssert(err != nil, "pointer-cycle-is-an-error")
	case 1:
		type S []any
		s := make(S, 1)
		s[0] = s
		vfKnown("F-C06-slice-map-cycle")
		_, err := Marshal(s)
		vfKnownEnd()
		vfAssert(err != nil, "slice-cycle-is-an-error")
	case 2:
		m := map[string]any{}
		m["m"] = m
		vfKnown("F-C06-slice-map-cycle")
		_, err := Marshal(m)
		vfKnownEnd()
		vfAssert(err != nil, "map-cycle-is-an-error")
	case 3:
		// pointer cycle whose pointer lives in a map value (a fresh temporary slot on every lap)
		n := &jCycM{}
		n.Kids = map[string]*jCycM{"self": n}
		_, err := Marshal(n)
		vfAssert(err != nil, "pointer-cycle-through-map-value-is-an-error")
	case 4:
		// pointer cycle whose pointer lives in a slice element
		n := &jCycS{}
		n.Kids = []*jCycS{n}
		_, err := Marshal(n)
		vfAssert(err != nil, "pointer-cycle-through-slice-element-is-an-error")
	case 5:
		// two-node pointer cycle through struct fields, entered by value
		a, b := &jCycP{V: 1}, &jCycP{V: 2}
		a.Next, b.Next = b, a
		_, err := Marshal(*a)
		vfAssert(err != nil, "two-node-pointer-cycle-is-an-error")
	}
	vfCover("done")
}

type jCycM struct {
	Kids map[string]*jCycM
}

type jCycS struct {
	Kids []*jCycS
}

type jDur struct {
	D time.Duration    `json:"d"`
	P *time.Duration   `json:"p"`
	N []time.Duration  `json:"n"`
}

type jHeader map[string][]string

type jDecAll struct {
	S  map[string]string
	L  jHeader
	B  map[string]bool
	I  map[string]any
	R  map[string]RawMessage
	N  jNested
	Sl jSlices
	P  jPtrs
	T  jStrTag
	A  []jBasic
	M  jMaps
}

func c06Target(mode int) any {
	switch mode {
	case 0:
		return new(map[string]string)
	case 1:
		return new(map[string][]string)
	case 2:
		return new(map[string]bool)
	case 3:
		return new(map[string]any)
	case 4:
		return new(map[string]RawMessage)
	case 5:
		return new(jHeader)
	case 6:
		return new(jNested)
	case 7:
		return new(jSlices)
	case 8:
		return new(jPtrs)
	case 9:
		return new(jStrTag)
	case 10:
		return new([]jBasic)
	case 11:
		return new(jMaps)
	case 12:
		return new(jIface)
	case 13:
		return new([2][]string)
	case 14:
		return new(*jNested)
	case 15:
		return new(jNumRaw)
	case 16:
		return new(time.Duration)
	case 17:
		return new(jDur)
	}
	return nil
}

// c06Doc: a valid document for target `mode` that drives its decoder through every member kind.
func c06Doc(mode int) string {
	switch mode {
	case 0:
		return `{"a":"x", "b":null}`
	case 1, 5:
		return `{"a":["x","y"], "b":null,"c":[]}`
	case 2:
		return `{"a":true, "b":false}`
	case 3:
		return `{"a":[1,{"b":null}], "c":"s"}`
	case 4:
		return `{"a":[1, 2], "b":"s"}`
	case 6:
		return `{"x":1,"Y":"y","z":2,"in":{"x":3},"pn":{"Y":"q"}}`
	case 7:
		return `{"L":[1,-2],"B":"AQI=","A":[3,4]}`
	case 8:
		return `{"c":1,"D":true,"p":-7}`
	case 9:
		return `{"e":"1","F":"-2","g":"true","s":"\"x\""}`
	case 10:
		return `[{"a":1,"b":"x"}, {"a":2}]`
	case 11:
		return `{"M":{"k":1},"n":{"-3":true}}`
	case 12:
		return `{"i":{"k":[true,null,"s"]}}`
	case 13:
		return `[["a"],["b","c"]]`
	case 14:
		return `{"x":1,"pn":null}`
	case 15:
		return `{"N":-1.5e3,"r":[1, {}]}`
	case 16:
		return `"1m30s"`
	case 17:
		return `{"d":"2h","p":"5ms","n":[7, "1s"]}`
	}
	return ""
}

// H06-dec: every byte string of vfLen bytes decoded into target vfMode: no panic / fault (engine monitors), an
// invalid document is always an error.
func vfH_c06_dec() {
	b := vfBytes(vfLen)
	for i := range b { // float parsing is an opaque stub without range errors
		vfAssume(b[i] != 'e')
		vfAssume(b[i] != 'E')
	}
	err := Unmarshal(b, c06Target(vfMode))
	if !refValid(b) {
		vfAssert(err != nil, "invalid-document-rejected")
	}
	if err == nil {
		vfCover("accepted")
	} else {
		vfCover("rejected")
	}
}

// H06-trunc: a valid document of the target cut at every offset, and with one byte at an arbitrary position replaced
// by an arbitrary byte: never a panic; rejected whenever the result is not valid JSON; the intact document is accepted.
func vfH_c06_trunc() {
	doc := []byte(c06Doc(vfMode))
	n := vfIntIn(0, len(doc))
	b := append([]byte(nil), doc[:n]...)
	mutated := false
	if n > 0 && vfBool() {
		pos := vfIntIn(0, n-1)
		c := vfByte()
		vfAssume(c != 'e' && c != 'E')
		b[pos] = c
		mutated = true
	}
	t := c06Target(vfMode)
	var err error
	if vfFlags == 0 {
		err = Unmarshal(b, t)
	} else {
		// Parse decodes ONE value and hands back what follows it: input that continues with anything but white space
		// after that value is "rejected" by Parse in the sense of this unit
		var rest []byte
		rest, err = Parse(b, t, ZeroCopy|DontMatchCaseInsensitiveStructFields)
		if err == nil {
			for _, c := range rest {
				if c != ' ' && c != '\t' && c != '\n' && c != '\r' {
					err = jFail{}
				}
			}
		}
	}
	if !mutated && n == len(doc) {
		vfAssert(err == nil, "intact-document-accepted")
		vfCover("intact")
	}
	if !mutated && n < len(doc) {
		vfAssert(err != nil, "truncated-document-rejected")
		vfCover("truncated")
	}
	if mutated && !refValid(b) {
		vfAssert(err != nil, "corrupt-document-rejected")
		vfCover("corrupt")
	}
}

// warm-up (runs once before the per-path snapshot): builds the target's codec so that paths do not rebuild it
func vfWarm_c06() {
	Unmarshal([]byte("null"), c06Target(vfMode))
}

// H06-seq: state carried between calls (pooled scratch buffers, codec caches): a call that FAILS must leave nothing
// behind that changes a later call. Step 1 (vfMode) is an encode or decode that returns an error half-way through a
// container; step 2 encodes and decodes values of the specialised map types and a struct, with flags vfFlags, and must
// produce exactly what a fresh process produces.
func vfH_c06_seq() {
	flags := AppendFlags(vfFlags)
	var err error
	switch vfMode {
	case 0:
		_, err = Append(nil, map[string]RawMessage{"a": RawMessage(`1`), "b": RawMessage(`{`), "c": RawMessage(`2`)}, flags)
	case 1:
		_, err = Append(nil, map[string]any{"a": 1, "b": jMarshalerV{fail: true}, "c": "x"}, flags)
	case 2:
		_, err = Append(nil, map[string][]string{"a": {"x"}, "b": nil}, flags)
		_, err = Append(nil, jMarsh{M: jMarshalerV{fail: true}}, flags)
	case 3:
		_, err = Append(nil, []any{map[string]string{"k": "v"}, map[string]RawMessage{"r": RawMessage(`]`)}}, flags)
	case 4:
		var m map[string][]string
		err = Unmarshal([]byte(`{"a":["x","y"],"b":["z",1]}`), &m)
	case 5:
		var m map[string]any
		err = Unmarshal([]byte(`{"a":{"b":[1,2,{"c":tru}]}}`), &m)
	case 6:
		var x jNested
		err = Unmarshal([]byte(`{"x":1,"z":2,"pn":{"Y":5}}`), &x)
	}
	vfAssert(err != nil, "step-1-fails-as-intended")

	// step 2
	check := func(v any, want string) {
		got, err := Append(nil, v, flags|SortMapKeys)
		vfAssert(err == nil, "step-2-encode-ok")
		if err == nil {
			vfAssert(string(got) == want, "step-2-bytes")
		}
	}
	check(map[string]string{"x": "y", "a": "b"}, `{"a":"b","x":"y"}`)
	check(map[string]bool{"t": true}, `{"t":true}`)
	check(map[string][]string{"l": {"1"}, "k": nil}, `{"k":null,"l":["1"]}`)
	check(map[string]any{"n": nil, "s": "v"}, `{"n":null,"s":"v"}`)
	check(map[string]RawMessage{"r": RawMessage(`[ ]`)}, `{"r":[]}`)
	check(map[int8]int8{2: 3}, `{"2":3}`)
	check(jBasic{A: 7, B: "q"}, `{"a":7,"b":"q"}`)
	var m1 map[string][]string
	err = Unmarshal([]byte(`{"a":["x"],"b":null}`), &m1)
	vfAssert(err == nil && len(m1) == 2 && len(m1["a"]) == 1 && m1["a"][0] == "x" && m1["b"] == nil, "step-2-decode-map")
	var n1 jNested
	err = Unmarshal([]byte(`{"x":4,"pn":{"Y":"s"}}`), &n1)
	vfAssert(err == nil && n1.X == 4 && n1.JEmbP == nil && n1.Pn != nil && n1.Pn.Y == "s", "step-2-decode-struct")
	vfCover("done")
}
