package json

type jCycP struct {
	Next *jCycP
	V    int8
}

type jArr1 struct {
	A [1]*int8
}

// H06-enc: Marshal/Append by value and by pointer never panic for every catalogue shape (engine monitors: PANIC,
// out-of-object access, wild pointers), including the single-pointer layouts that interfaces store directly.
func vfH_c06_enc() {
	sh := jshapes[vfShape]
	v := sh.mk()
	b1, e1 := Marshal(v)
	pv := sh.ptr(v)
	b2, e2 := Marshal(pv)
	vfAssert((e1 == nil) == (e2 == nil), "value-vs-pointer-error-parity")
	if e1 == nil && e2 == nil {
		vfAssert(string(b1) == string(b2), "value-vs-pointer-same-bytes")
	}
	vfCover("done")
}

// H06-direct: values whose interface representation is a bare pointer word (pointer, map, 1-element array of pointer,
// 1-field struct of pointer) passed BY VALUE.
func vfH_c06_direct() {
	x := int8(vfByte())
	var got []byte
	var err error
	want := refInt(nil, int64(x))
	switch vfMode {
	case 0:
		got, err = Marshal(&x)
	case 1:
		got, err = Marshal([1]*int8{&x})
		want = append(append([]byte{'['}, want...), ']')
	case 2:
		got, err = Marshal(struct{ P *int8 }{&x})
		want = append(append([]byte(`{"P":`), want...), '}')
	case 3:
		got, err = Marshal(jArr1{[1]*int8{&x}})
		want = append(append([]byte(`{"A":[`), want...), ']', '}')
	case 4:
		got, err = Marshal(map[string]*int8{"k": &x})
		want = append(append([]byte(`{"k":`), want...), '}')
	case 5:
		got, err = Marshal([1][1]*int8{{&x}})
		want = append(append([]byte(`[[`), want...), ']', ']')
	case 6:
		got, err = Marshal(struct{ A [1]*int8 }{[1]*int8{&x}})
		want = append(append([]byte(`{"A":[`), want...), ']', '}')
	}
	vfAssert(err == nil, "marshal-ok")
	if err == nil {
		vfAssert(string(got) == string(want), "bytes==encoding/json")
	}
	vfCover("done")
}

// H06-cycle: self-referential values must produce an error, not a crash or a hang.
func vfH_c06_cycle() {
	switch vfMode {
	case 0:
		a := &jCycP{V: 1}
		a.Next = a
		_, err := Marshal(a)
		vfAssert(err != nil, "pointer-cycle-is-an-error")
	case 1:
		type S []any
		s := make(S, 1)
		s[0] = s
		vfKnown("F-C06-slice-map-cycle")
		_, err := Marshal(s)
		vfKnownEnd()
		vfAssert(err != nil, "slice-cycle-is-an-error")
	case 2:
		m := map[string]any{}
		m["m"] = m
		vfKnown("F-C06-slice-map-cycle")
		_, err := Marshal(m)
		vfKnownEnd()
		vfAssert(err != nil, "map-cycle-is-an-error")
	}
	vfCover("done")
}
